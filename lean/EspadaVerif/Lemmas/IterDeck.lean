/-
Lemmas/IterDeck: the 49-card deck built by `into_iter` is the specification's `deck49` (as codes):
49 distinct valid cards, none of them on the flop.
-/
import EspadaVerif.Model.Iter
import EspadaVerif.Spec.Deals
import EspadaVerif.Props.C13

namespace EspadaVerif.IterLemmas
open EspadaVerif Spec

theorem code_ofCode (n : Nat) : (Card.ofCode n).code = n := by
  simp only [Card.ofCode, Card.code]; omega

theorem ofCode_code (c : Card) (h : c.valid = true) : Card.ofCode c.code = c := by
  obtain ⟨r, s⟩ := c
  simp only [Card.valid, Bool.and_eq_true, decide_eq_true_eq] at h
  simp only [Card.ofCode, Card.code, Card.mk.injEq]
  omega

theorem valid_ofCode (n : Nat) (h : n < 52) : (Card.ofCode n).valid = true := by
  simp only [Card.valid, Card.ofCode, Bool.and_eq_true]
  exact ⟨decide_eq_true (by omega), decide_eq_true (by omega)⟩

theorem code_lt (c : Card) (h : c.valid = true) : c.code < 52 := by
  obtain ⟨r, s⟩ := c
  simp only [Card.valid, Bool.and_eq_true, decide_eq_true_eq] at h
  simp only [Card.code]
  omega

theorem code_inj {a b : Card} (ha : a.valid = true) (hb : b.valid = true) (h : a.code = b.code) : a = b := by
  rw [← ofCode_code a ha, ← ofCode_code b hb, h]

theorem lt_ne {a b : Card} (h : Card.lt a b = true) : a ≠ b := by
  rintro rfl
  simp [Card.lt] at h

/-- on valid cards, distinct cards ↔ distinct codes -/
theorem nodup_map_code (l : List Card) (hv : ∀ c ∈ l, c.valid = true) : (l.map Card.code).Nodup ↔ l.Nodup := by
  unfold List.Nodup
  rw [List.pairwise_map]
  constructor
  · exact List.Pairwise.imp (fun h e => h (congrArg Card.code e))
  · exact List.Pairwise.imp_of_mem (fun ha hb h e => h (code_inj (hv _ ha) (hv _ hb) e))

theorem fullDeck_eq : fullDeck = .ok allCards := by
  simp only [fullDeck, C13.rank_range_all, C13.suit_range_all]
  decide

/-- the deck of the iterator, as cards -/
def deckOf (flop : List Card) : List Card := (deck49 (flop.map Card.code)).map Card.ofCode

theorem deck_filter (flop : List Card) (hv : ∀ c ∈ flop, c.valid = true) :
    (allCards.filter fun c => (flop.map some ++ [none, none]).all fun b => match b with
      | some x => x != c
      | none => true) = deckOf flop := by
  unfold deckOf deck49 allCards
  rw [List.filter_map]
  congr 1
  apply List.filter_congr
  intro n _
  rw [Bool.eq_iff_iff]
  simp only [Function.comp, List.all_append, List.all_map, List.all_cons, List.all_nil, Bool.and_true,
    List.all_eq_true, bne_iff_ne, ne_eq, Bool.not_eq_true', List.contains_eq_mem, List.mem_map,
    decide_eq_false_iff_not, not_exists, not_and]
  constructor
  · intro h x hx e
    apply h x hx
    rw [← e, ofCode_code x (hv x hx)]
  · intro h x hx e
    apply h x hx
    rw [e, code_ofCode]

theorem deck49_nodup (codes : List Nat) : (deck49 codes).Nodup :=
  List.Nodup.sublist List.filter_sublist List.nodup_range

theorem mem_deck49 (codes : List Nat) (n : Nat) : n ∈ deck49 codes ↔ n < 52 ∧ n ∉ codes := by
  simp [deck49]

theorem deck49_length (codes : List Nat) (hl : codes.length = 3) (hn : codes.Nodup) (hlt : ∀ n ∈ codes, n < 52) :
    (deck49 codes).length = 49 := by
  have h1 := List.length_eq_countP_add_countP (fun c => codes.contains c) (l := List.range 52)
  rw [List.countP_eq_length_filter, List.countP_eq_length_filter] at h1
  have h2 : (List.range 52).filter (fun a => decide ¬(codes.contains a) = true) = deck49 codes := by
    unfold deck49
    apply List.filter_congr
    intro n _
    simp
  have h3 : ((List.range 52).filter (fun c => codes.contains c)).Perm codes := by
    rw [List.perm_ext_iff_of_nodup (List.Nodup.sublist List.filter_sublist List.nodup_range) hn]
    intro n
    simp only [List.mem_filter, List.mem_range, List.contains_eq_mem, decide_eq_true_eq]
    exact ⟨fun h => h.2, fun h => ⟨hlt n h, h⟩⟩
  rw [h2, h3.length_eq, hl] at h1
  simp only [List.length_range] at h1
  omega

theorem deckOf_length (flop : List Card) (hl : flop.length = 3) (hn : flop.Nodup)
    (hv : ∀ c ∈ flop, c.valid = true) : (deckOf flop).length = 49 := by
  unfold deckOf
  rw [List.length_map]
  apply deck49_length
  · simpa using hl
  · exact (nodup_map_code flop hv).mpr hn
  · intro n hn
    obtain ⟨c, hc, rfl⟩ := List.mem_map.mp hn
    exact code_lt c (hv c hc)

/-- facts about the two deck cards at a position -/
theorem deck_at (flop : List Card) (hl : flop.length = 3) (hn : flop.Nodup)
    (hv : ∀ c ∈ flop, c.valid = true) (t r : Nat) (htr : t < r) (hr : r < 49) :
    let turn := Card.ofCode ((deck49 (flop.map Card.code)).getD t 0)
    let river := Card.ofCode ((deck49 (flop.map Card.code)).getD r 0)
    idx (deckOf flop) t = .ok turn ∧ idx (deckOf flop) r = .ok river
      ∧ turn ≠ river ∧ turn.valid = true ∧ river.valid = true ∧ turn ∉ flop ∧ river ∉ flop := by
  intro turn river
  have hlen : (deck49 (flop.map Card.code)).length = 49 := by
    have := deckOf_length flop hl hn hv
    simpa [deckOf] using this
  have ht : t < (deck49 (flop.map Card.code)).length := by omega
  have hr' : r < (deck49 (flop.map Card.code)).length := by omega
  have e1 : (deck49 (flop.map Card.code)).getD t 0 = (deck49 (flop.map Card.code))[t] := by
    simp [List.getD_eq_getElem?_getD, List.getElem?_eq_getElem ht]
  have e2 : (deck49 (flop.map Card.code)).getD r 0 = (deck49 (flop.map Card.code))[r] := by
    simp [List.getD_eq_getElem?_getD, List.getElem?_eq_getElem hr']
  have m1 := (mem_deck49 _ _).mp (List.getElem_mem ht)
  have m2 := (mem_deck49 _ _).mp (List.getElem_mem hr')
  have hne : (deck49 (flop.map Card.code))[t] ≠ (deck49 (flop.map Card.code))[r] :=
    (List.pairwise_iff_getElem.mp (deck49_nodup (flop.map Card.code))) t r ht hr' htr
  have notin : ∀ n, n ∉ flop.map Card.code → Card.ofCode n ∉ flop := by
    intro n h hm
    apply h
    exact List.mem_map.mpr ⟨_, hm, code_ofCode n⟩
  refine ⟨?_, ?_, ?_, ?_, ?_, ?_, ?_⟩
  · simp only [idx, deckOf, List.getElem?_map, List.getElem?_eq_getElem ht, Option.map_some, turn, e1]
  · simp only [idx, deckOf, List.getElem?_map, List.getElem?_eq_getElem hr', Option.map_some, river, e2]
  · intro h
    apply hne
    have := congrArg Card.code h
    simpa only [turn, river, code_ofCode, e1, e2] using this
  · exact valid_ofCode _ (by rw [e1]; exact m1.1)
  · exact valid_ofCode _ (by rw [e2]; exact m2.1)
  · exact notin _ (by rw [e1]; exact m1.2)
  · exact notin _ (by rw [e2]; exact m2.2)

end EspadaVerif.IterLemmas
