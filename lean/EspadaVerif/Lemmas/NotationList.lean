/-
Lemmas/NotationList: the list half of C05.  Splitting a comma-joined list of comma-free texts gives the texts back;
token texts and weight suffixes are comma-free; `lookup` on an appended history and on a block of entries that all
carry the same weight; `comboCodes` is injective on real combos; stripping a string of spaces leaves nothing.
-/
import EspadaVerif.Lemmas.NotationToken
import EspadaVerif.Lemmas.RangeAux

namespace EspadaVerif.NotationList
open EspadaVerif TextDefs TokenFacts

variable {W : Type}

/-! ### `splitCommas` undoes `joinCommas` -/

theorem go_nocomma (t rest cur : Bytes) (h : ∀ b ∈ t, b ≠ 44) :
    splitCommas.go (t ++ rest) cur = splitCommas.go rest (t.reverse ++ cur) := by
  induction t generalizing cur with
  | nil => rfl
  | cons b t ih =>
    have hb : b ≠ 44 := h b List.mem_cons_self
    simp only [List.cons_append, splitCommas.go, hb, if_false]
    rw [ih _ (fun x hx => h x (List.mem_cons_of_mem _ hx))]
    simp

theorem splitCommas_go_join (texts : List Bytes) (hne : texts ≠ []) (h : ∀ t ∈ texts, ∀ b ∈ t, b ≠ 44) :
    splitCommas.go (joinCommas texts) [] = texts := by
  induction texts with
  | nil => exact absurd rfl hne
  | cons t rest ih =>
    have ht := h t List.mem_cons_self
    cases rest with
    | nil =>
      have := go_nocomma t [] [] ht
      rw [List.append_nil] at this
      simp only [joinCommas, this, splitCommas.go, List.append_nil, List.reverse_reverse]
    | cons t' r =>
      have ih' := ih (by simp) (fun x hx => h x (List.mem_cons_of_mem _ hx))
      simp only [joinCommas, List.append_assoc]
      rw [go_nocomma t _ [] ht]
      simp only [List.singleton_append, splitCommas.go, if_true, List.append_nil, List.reverse_reverse]
      rw [ih']

theorem splitCommas_join (texts : List Bytes) (hne : texts ≠ []) (h : ∀ t ∈ texts, ∀ b ∈ t, b ≠ 44) :
    splitCommas (joinCommas texts) = texts := splitCommas_go_join texts hne h

/-! ### token texts are comma-free and non-empty -/

theorem rl_ne_comma (r : Nat) : Spec.rl r ≠ 44 := by
  by_cases h : r < 13
  · exact (by decide : ∀ r ∈ List.range 13, Spec.rl r ≠ 44) r (List.mem_range.mpr h)
  · have : Spec.rankLetters[r]? = none := List.getElem?_eq_none (by simp [Spec.rankLetters]; omega)
    simp [Spec.rl, List.getD, this]

theorem sl_ne_comma (s : Nat) : Spec.sl s ≠ 44 := by
  by_cases h : s < 4
  · exact (by decide : ∀ r ∈ List.range 4, Spec.sl r ≠ 44) s (List.mem_range.mpr h)
  · have : Spec.suitLetters[s]? = none := List.getElem?_eq_none (by simp [Spec.suitLetters]; omega)
    simp [Spec.sl, List.getD, this]

theorem so_ne_comma (s : Bool) : Spec.so s ≠ 44 := by cases s <;> decide

theorem text_nocomma (t : Spec.WfToken) : ∀ b ∈ t.text, b ≠ 44 := by
  have key : t.text.all (· != 44) = true := by
    cases t <;> simp [Spec.WfToken.text, rl_ne_comma, sl_ne_comma, so_ne_comma]
  intro b hb
  have := List.all_eq_true.mp key b hb
  simpa using this

theorem text_ne_nil (t : Spec.WfToken) : t.text ≠ [] := by cases t <;> simp [Spec.WfToken.text]

theorem weightText_nocomma (w : Bytes) (h : isWeightText w = true) : ∀ b ∈ w, b ≠ 44 := by
  have dig : ∀ l : Bytes, l.all isDigit = true → ∀ b ∈ l, b ≠ 44 := by
    intro l hl b hb
    have := List.all_eq_true.mp hl b hb
    simp only [isDigit, Bool.and_eq_true, decide_eq_true_eq] at this
    omega
  have zero : ∀ l : Bytes, l.all (· == 48) = true → ∀ b ∈ l, b ≠ 44 := by
    intro l hl b hb
    have := List.all_eq_true.mp hl b hb
    simp only [beq_iff_eq] at this
    omega
  unfold isWeightText at h
  split at h
  · intro b hb; simp only [List.mem_cons, List.not_mem_nil, or_false] at hb; omega
  · intro b hb
    rcases List.mem_cons.mp hb with rfl | hb
    · omega
    · rcases List.mem_cons.mp hb with rfl | hb
      · omega
      · exact dig _ h b hb
  · intro b hb; simp only [List.mem_cons, List.not_mem_nil, or_false] at hb; omega
  · intro b hb
    rcases List.mem_cons.mp hb with rfl | hb
    · omega
    · rcases List.mem_cons.mp hb with rfl | hb
      · omega
      · exact zero _ h b hb
  · cases h

theorem suffix_nocomma (suffix : Bytes) (hs : SuffixOk suffix) : ∀ b ∈ suffix, b ≠ 44 := by
  rcases hs with rfl | ⟨w, rfl, hw⟩
  · intro b hb; cases hb
  · intro b hb
    rcases List.mem_cons.mp hb with rfl | hb
    · omega
    · exact weightText_nocomma w hw b hb

theorem tokenText_nocomma (t : Spec.WfToken) (suffix : Bytes) (hs : SuffixOk suffix) :
    ∀ b ∈ t.text ++ suffix, b ≠ 44 := by
  intro b hb
  rcases List.mem_append.mp hb with h | h
  · exact text_nocomma t b h
  · exact suffix_nocomma suffix hs b h

theorem joinCommas_ne_nil (texts : List Bytes) (hne : texts ≠ []) (h : ∀ t ∈ texts, t ≠ []) :
    joinCommas texts ≠ [] := by
  cases texts with
  | nil => exact absurd rfl hne
  | cons t rest =>
    cases rest with
    | nil => exact h t List.mem_cons_self
    | cons t' r => simp [joinCommas]

/-! ### `lookup` -/

theorem lookup_append (a b : HandRange W) (c : Combo) :
    HandRange.lookup (a ++ b) c = (HandRange.lookup a c).or (HandRange.lookup b c) := by
  induction a with
  | nil => simp [HandRange.lookup]
  | cons e a ih =>
    obtain ⟨k, v⟩ := e
    simp only [List.cons_append, HandRange.lookup]
    split
    · rfl
    · exact ih

theorem lookup_const_mem (a : HandRange W) (w : W) (h : ∀ e ∈ a, e.2 = w) (c : Combo)
    (hc : c ∈ a.map (·.1)) : HandRange.lookup a c = some w := by
  induction a with
  | nil => cases hc
  | cons e a ih =>
    obtain ⟨k, v⟩ := e
    simp only [HandRange.lookup]
    split
    · exact congrArg some (h (k, v) List.mem_cons_self)
    · next hk =>
      simp only [List.map_cons, List.mem_cons] at hc
      rcases hc with rfl | hc
      · exact absurd rfl hk
      · exact ih (fun e he => h e (List.mem_cons_of_mem _ he)) hc

theorem lookup_not_mem (a : HandRange W) (c : Combo) (hc : c ∉ a.map (·.1)) : HandRange.lookup a c = none := by
  induction a with
  | nil => rfl
  | cons e a ih =>
    obtain ⟨k, v⟩ := e
    simp only [List.map_cons, List.mem_cons, not_or] at hc
    simp only [HandRange.lookup]
    rw [if_neg (fun e => hc.1 e.symm)]
    exact ih hc.2

/-! ### codes identify real combos -/

theorem comboCodes_inj {c c' : Combo} (hc : ComboOk c) (hc' : ComboOk c') (h : comboCodes c = comboCodes c') :
    c = c' := by
  obtain ⟨⟨r1, s1⟩, ⟨r2, s2⟩⟩ := c
  obtain ⟨⟨r1', s1'⟩, ⟨r2', s2'⟩⟩ := c'
  obtain ⟨v1, v2, _⟩ := hc
  obtain ⟨v1', v2', _⟩ := hc'
  simp only [Card.valid, Bool.and_eq_true, decide_eq_true_eq] at v1 v2 v1' v2'
  simp only [comboCodes, Card.code, Prod.mk.injEq] at h
  simp only [Combo.mk.injEq, Card.mk.injEq]
  omega

/-! ### strings of spaces -/

theorem stripSpaces_spaces (s : Bytes) (h : ∀ b ∈ s, b = 32) : stripSpaces s = [] := by
  unfold stripSpaces
  rw [List.filter_eq_nil_iff]
  intro b hb
  simp [h b hb]

end EspadaVerif.NotationList
