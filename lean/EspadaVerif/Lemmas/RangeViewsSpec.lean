/-
Lemmas/RangeViewsSpec: the specification of the two views of a range (`Spec/RangeViews.lean`: `cLookup`, `RP`,
`allRP`, `reported`, `rankPairView`, `orphanView`), which the driver's test oracle evaluates, is characterised
(A: unconditionally, B: when the weight comparison is equality on the weights present) and proved to agree with the
model's `rankPairs` / `orphans` on the contents the oracle builds from the inserted entries (C).  D: a concrete run.
-/
import EspadaVerif.Props.C12
import EspadaVerif.Props.C12General
import EspadaVerif.Props.C17
import EspadaVerif.Lemmas.NotationToken
import EspadaVerif.Lemmas.NotationList
import EspadaVerif.Props.Witness.Common

set_option Elab.async false

namespace EspadaVerif.Spec
open EspadaVerif EspadaVerif.TextDefs EspadaVerif.RankPairFacts

variable {W : Type}

/-! ## A. unconditional characterisations -/

/-! ### `cLookup` -/

theorem cLookup_nil (c : Nat × Nat) : cLookup ([] : Contents W) c = none := rfl

theorem cLookup_cons (k : Nat × Nat) (v : W) (m : Contents W) (c : Nat × Nat) :
    cLookup ((k, v) :: m) c = if k = c then some v else cLookup m c := by
  by_cases h : k = c
  · simp [cLookup, h]
  · simp [cLookup, h]

/-- what is looked up is an entry -/
theorem cLookup_mem {m : Contents W} {c : Nat × Nat} {w : W} (h : cLookup m c = some w) : (c, w) ∈ m := by
  induction m with
  | nil => cases h
  | cons e rest ih =>
    obtain ⟨k, v⟩ := e
    rw [cLookup_cons] at h
    split at h
    · next hk => subst hk; cases h; exact List.mem_cons_self
    · exact List.mem_cons_of_mem _ (ih h)

theorem cLookup_eq_none_iff {m : Contents W} {c : Nat × Nat} : cLookup m c = none ↔ ∀ w, (c, w) ∉ m := by
  induction m with
  | nil => simp [cLookup]
  | cons e rest ih =>
    obtain ⟨k, v⟩ := e
    rw [cLookup_cons]
    by_cases hk : k = c
    · subst hk
      rw [if_pos rfl]
      constructor
      · intro h; cases h
      · intro h; exact absurd List.mem_cons_self (h v)
    · rw [if_neg hk, ih]
      constructor
      · intro h w hm
        rcases List.mem_cons.mp hm with e | hm
        · cases e; exact hk rfl
        · exact h w hm
      · intro h w hm; exact h w (List.mem_cons_of_mem _ hm)

/-- when every combo occurs once, `cLookup` is membership -/
theorem cLookup_eq_some_iff {m : Contents W} (hnd : (m.map Prod.fst).Nodup) (c : Nat × Nat) (w : W) :
    cLookup m c = some w ↔ (c, w) ∈ m := by
  refine ⟨cLookup_mem, ?_⟩
  induction m with
  | nil => intro h; cases h
  | cons e rest ih =>
    obtain ⟨k, v⟩ := e
    simp only [List.map_cons, List.nodup_cons] at hnd
    intro hm
    rw [cLookup_cons]
    rcases List.mem_cons.mp hm with e | hm
    · cases e; rw [if_pos rfl]
    · have hne : k ≠ c := by
        rintro rfl
        exact hnd.1 (List.mem_map.mpr ⟨(k, w), hm, rfl⟩)
      rw [if_neg hne]
      exact ih hnd.2 hm

/-! ### `reported` -/

/-- **`reported`, unconditionally**: the first combo of the rank pair is present with `w` and every other combo is
present with a weight that compares equal to `w` -/
theorem reported_eq_some_iff (weq : W → W → Bool) (m : Contents W) (rp : RP) (w : W) :
    reported weq m rp = some w ↔
      ∃ c cs, rp.combos = c :: cs ∧ cLookup m c = some w ∧
        ∀ c' ∈ cs, ∃ w', cLookup m c' = some w' ∧ weq w' w = true := by
  unfold reported
  cases hc : rp.combos with
  | nil => simp
  | cons c cs =>
    show (match cLookup m c with
      | none => none
      | some w => if cs.all (fun c' => match cLookup m c' with | some w' => weq w' w | none => false)
          then some w else none) = some w ↔ _
    cases hl : cLookup m c with
    | none =>
      simp only [reduceCtorEq, false_iff, not_exists, not_and]
      intro c₀ cs₀ he hl₀
      cases he
      rw [hl] at hl₀
      cases hl₀
    | some p =>
      simp only [List.all_eq_true]
      constructor
      · intro h
        split at h
        · next hall =>
          cases h
          refine ⟨c, cs, rfl, hl, fun c' hc' => ?_⟩
          have := hall c' hc'
          cases hq : cLookup m c' with
          | none => simp only [hq] at this; cases this
          | some q => simp only [hq] at this; exact ⟨q, rfl, this⟩
        · cases h
      · rintro ⟨c₀, cs₀, he, hl₀, hall⟩
        cases he
        rw [hl] at hl₀
        cases hl₀
        rw [if_pos]
        intro c' hc'
        obtain ⟨q, hq, he⟩ := hall c' hc'
        rw [hq]; exact he

/-! ### `rankPairView` -/

/-- **`rankPairView`, unconditionally**: one entry per rank pair of `allRP` that `reported` accepts -/
theorem rankPairView_spec_raw (weq : W → W → Bool) (m : Contents W) (rp : RP) (w : W) :
    (rp, w) ∈ rankPairView weq m ↔ rp ∈ allRP ∧ reported weq m rp = some w := by
  unfold rankPairView
  rw [List.mem_filterMap]
  constructor
  · rintro ⟨a, ha, he⟩
    cases h : reported weq m a with
    | none => rw [h] at he; cases he
    | some w' =>
      rw [h] at he
      simp only [Option.map_some, Option.some.injEq, Prod.mk.injEq] at he
      obtain ⟨rfl, rfl⟩ := he
      exact ⟨ha, h⟩
  · rintro ⟨h1, h2⟩
    exact ⟨rp, h1, by rw [h2]; rfl⟩

/-- the view lists each rank pair at most once (its keys are a sublist of `allRP`) -/
theorem rankPairView_keys (weq : W → W → Bool) (m : Contents W) :
    (rankPairView weq m).map Prod.fst = allRP.filter (fun rp => (reported weq m rp).isSome) := by
  unfold rankPairView
  rw [List.map_filterMap, ← filterMap_const_eq_filter]
  congr 1
  funext rp
  simp [Option.map_map, Function.comp_def]

/-! ### `orphanView` -/

/-- **`orphanView`**: the entries of `m` whose combo is covered by no reported rank pair -/
theorem orphanView_spec (weq : W → W → Bool) (m : Contents W) (e : (Nat × Nat) × W) :
    e ∈ orphanView weq m ↔ e ∈ m ∧ ∀ rp w, (rp, w) ∈ rankPairView weq m → e.1 ∉ rp.combos := by
  unfold orphanView
  simp only [List.mem_filter, Bool.not_eq_eq_eq_not, Bool.not_true, List.contains_eq_mem, decide_eq_false_iff_not,
    List.mem_flatMap, not_exists, not_and]
  constructor
  · rintro ⟨h1, h2⟩
    exact ⟨h1, fun rp w h => h2 (rp, w) h⟩
  · rintro ⟨h1, h2⟩
    exact ⟨h1, fun x hx => h2 x.1 x.2 hx⟩

/-! ### `allRP` -/

/-- the canonical rank pairs of the specification: `h < k` are rank indexes (0 = ace … 12 = deuce) -/
def RP.canonical : RP → Prop
  | .pocket r => r < 13
  | .suited h k => h < k ∧ k < 13
  | .ofsuit h k => h < k ∧ k < 13

theorem mem_allRP (rp : RP) : rp ∈ allRP ↔ rp.canonical := by
  unfold allRP
  simp only [List.mem_append, List.mem_map, List.mem_flatMap, List.mem_range, List.mem_range'_1,
    List.mem_cons, List.not_mem_nil, or_false]
  constructor
  · rintro (⟨a, ha, rfl⟩ | ⟨h, hh, k, hk, (rfl | rfl)⟩)
    · exact ha
    · exact ⟨by omega, by omega⟩
    · exact ⟨by omega, by omega⟩
  · intro hc
    cases rp with
    | pocket a => exact Or.inl ⟨a, hc, rfl⟩
    | suited h k =>
      exact Or.inr ⟨h, by have := hc.1; have := hc.2; omega, k, by have := hc.1; have := hc.2; omega, Or.inl rfl⟩
    | ofsuit h k =>
      exact Or.inr ⟨h, by have := hc.1; have := hc.2; omega, k, by have := hc.1; have := hc.2; omega, Or.inr rfl⟩

theorem allRP_nodup : allRP.Nodup := by decide +kernel

theorem allRP_length : allRP.length = 169 := by decide +kernel

/-- 6 / 4 / 12 combos -/
theorem RP.combos_length (rp : RP) :
    rp.combos.length = match rp with | .pocket _ => 6 | .suited _ _ => 4 | .ofsuit _ _ => 12 := by
  cases rp with
  | pocket r => simp only [RP.combos, NotationToken.pocketCombos_eq, List.length_map]; decide
  | suited h k => simp only [RP.combos, NotationToken.pairCombos_true, List.length_map]; decide
  | ofsuit h k => simp only [RP.combos, NotationToken.pairCombos_false, List.length_map]; decide

/-- every rank pair (canonical or not) has combos -/
theorem RP.combos_ne_nil (rp : RP) : rp.combos ≠ [] := by
  intro h
  have := RP.combos_length rp
  rw [h] at this
  cases rp <;> cases this

theorem allRP_combos_ne_nil : ∀ rp ∈ allRP, rp.combos ≠ [] := fun rp _ => RP.combos_ne_nil rp

/-- a canonical rank pair lists each of its combos once -/
theorem RP.combos_nodup {rp : RP} (hc : rp.canonical) : rp.combos.Nodup := by
  cases rp with
  | pocket r => exact NotationToken.pocketCombos_nodup r
  | suited h k => exact NotationToken.pairCombos_nodup h k true (by have := hc.1; omega)
  | ofsuit h k => exact NotationToken.pairCombos_nodup h k false (by have := hc.1; omega)

/-! ## B. when the comparison is equality on the weights present -/

/-- under "`weq` is equality on `inDom`" a rank pair is reported with `w` exactly when all of its combos are present
with that very weight -/
theorem reported_eq_some_iff_all (weq : W → W → Bool) (inDom : W → Prop)
    (heq : ∀ a b, inDom a → inDom b → (weq a b = true ↔ a = b)) (m : Contents W)
    (hm : ∀ c w, cLookup m c = some w → inDom w) (rp : RP) (w : W) :
    reported weq m rp = some w ↔ ∀ c ∈ rp.combos, cLookup m c = some w := by
  rw [reported_eq_some_iff]
  constructor
  · rintro ⟨c, cs, he, hl, hall⟩ c' hc'
    rw [he] at hc'
    rcases List.mem_cons.mp hc' with rfl | hc'
    · exact hl
    · obtain ⟨w', h1, h2⟩ := hall c' hc'
      rw [h1, (heq w' w (hm _ _ h1) (hm _ _ hl)).mp h2]
  · intro hall
    cases he : rp.combos with
    | nil => exact absurd he (RP.combos_ne_nil rp)
    | cons c cs =>
      rw [he] at hall
      have hl := hall c List.mem_cons_self
      exact ⟨c, cs, rfl, hl, fun c' hc' =>
        ⟨w, hall c' (List.mem_cons_of_mem _ hc'), (heq w w (hm _ _ hl) (hm _ _ hl)).mpr rfl⟩⟩

/-- **`rankPairView` under equality**: a rank pair is listed with `w` iff it is one of the 169 and all of its combos
are present with weight `w` -/
theorem rankPairView_spec (weq : W → W → Bool) (inDom : W → Prop)
    (heq : ∀ a b, inDom a → inDom b → (weq a b = true ↔ a = b)) (m : Contents W)
    (hm : ∀ c w, cLookup m c = some w → inDom w) (rp : RP) (w : W) :
    (rp, w) ∈ rankPairView weq m ↔ rp ∈ allRP ∧ ∀ c ∈ rp.combos, cLookup m c = some w := by
  rw [rankPairView_spec_raw, reported_eq_some_iff_all weq inDom heq m hm]

/-- **`orphanView` under equality**: the entries of `m` whose combo lies in no rank pair that is present completely
with one common weight -/
theorem orphanView_spec' (weq : W → W → Bool) (inDom : W → Prop)
    (heq : ∀ a b, inDom a → inDom b → (weq a b = true ↔ a = b)) (m : Contents W)
    (hm : ∀ c w, cLookup m c = some w → inDom w) (e : (Nat × Nat) × W) :
    e ∈ orphanView weq m ↔
      e ∈ m ∧ ∀ rp ∈ allRP, ∀ w, (∀ c ∈ rp.combos, cLookup m c = some w) → e.1 ∉ rp.combos := by
  rw [orphanView_spec]
  constructor
  · rintro ⟨h1, h2⟩
    exact ⟨h1, fun rp hrp w hall => h2 rp w ((rankPairView_spec weq inDom heq m hm rp w).mpr ⟨hrp, hall⟩)⟩
  · rintro ⟨h1, h2⟩
    refine ⟨h1, fun rp w h => ?_⟩
    obtain ⟨hrp, hall⟩ := (rankPairView_spec weq inDom heq m hm rp w).mp h
    exact h2 rp hrp w hall

/-! ## C. agreement with the model -/

/-- the contents the test oracle builds from the entries in insertion order (oldest first): a later entry replaces
an earlier one with the same combo.  This is, for any weight type, the driver's `specContents`. -/
def specContents (es : List (Combo × W)) : Contents W :=
  es.foldl (fun m e => ((e.1.fst.code, e.1.snd.code), e.2) ::
    m.filter (fun x => x.1 != (e.1.fst.code, e.1.snd.code))) []

/-- the model's rank pair as the specification's -/
def toRP : RankPair → RP
  | .pocket r => .pocket r
  | .suited h k => .suited h k
  | .ofsuit h k => .ofsuit h k

/-- the specification's rank pair as the model's (inverse of `toRP`) -/
def ofRP : RP → RankPair
  | .pocket r => .pocket r
  | .suited h k => .suited h k
  | .ofsuit h k => .ofsuit h k

theorem ofRP_toRP (rp : RankPair) : ofRP (toRP rp) = rp := by cases rp <;> rfl
theorem toRP_ofRP (rp : RP) : toRP (ofRP rp) = rp := by cases rp <;> rfl
theorem toRP_inj {a b : RankPair} (h : toRP a = toRP b) : a = b := by
  rw [← ofRP_toRP a, ← ofRP_toRP b, h]

theorem toRP_canonical (rp : RankPair) : (toRP rp).canonical ↔ RankPair.canonical rp := by
  cases rp <;> exact Iff.rfl

/-- the combos of the specification's rank pair are the codes of the model's combos, in the same order -/
theorem toRP_combos (rp : RankPair) : (toRP rp).combos = rp.combos.map comboCodes := by
  cases rp with
  | pocket r => exact (NotationToken.codes_pocket r).symm
  | suited h k => exact (NotationToken.codes_suited h k).symm
  | ofsuit h k => exact (NotationToken.codes_ofsuit h k).symm

/-- the specification enumerates the rank pairs in the order the model's `rank_pairs` visits them -/
theorem allRP_eq_map : allRP = allRankPairs.map toRP := by decide +kernel

/-! ### `specContents` -/

/-- one insert on the contents -/
def scStep (m : Contents W) (e : Combo × W) : Contents W :=
  (comboCodes e.1, e.2) :: m.filter (fun x => x.1 != comboCodes e.1)

/-- the contents of a history (newest first) -/
def scRec : List (Combo × W) → Contents W
  | [] => []
  | e :: l => scStep (scRec l) e

theorem specContents_eq_foldl (es : List (Combo × W)) : specContents es = es.foldl scStep [] := rfl

theorem specContents_reverse (l : List (Combo × W)) : specContents l.reverse = scRec l := by
  induction l with
  | nil => rfl
  | cons e l ih =>
    rw [List.reverse_cons, specContents_eq_foldl, List.foldl_append, ← specContents_eq_foldl, ih]
    rfl

/-- the oracle's contents are those of the model's history `es.reverse` -/
theorem specContents_eq (es : List (Combo × W)) : specContents es = scRec es.reverse := by
  rw [← specContents_reverse es.reverse, List.reverse_reverse]

theorem cLookup_filter_ne (m : Contents W) (k c : Nat × Nat) :
    cLookup (m.filter (fun x => x.1 != k)) c = if c = k then none else cLookup m c := by
  induction m with
  | nil => simp [cLookup]
  | cons e rest ih =>
    obtain ⟨k', v⟩ := e
    by_cases hk : k' = k
    · subst hk
      have : ((k', v).1 != k') = false := by simp
      rw [List.filter_cons, this, if_neg (by simp), ih, cLookup_cons]
      by_cases hc : c = k'
      · rw [if_pos hc, if_pos hc]
      · rw [if_neg hc, if_neg hc, if_neg (fun e => hc e.symm)]
    · have : ((k', v).1 != k) = true := by simpa using hk
      rw [List.filter_cons, this, if_pos rfl, cLookup_cons, cLookup_cons, ih]
      by_cases hc : k' = c
      · subst hc
        rw [if_pos rfl, if_pos rfl, if_neg hk]
      · rw [if_neg hc, if_neg hc]

theorem cLookup_scStep (m : Contents W) (e : Combo × W) (c : Nat × Nat) :
    cLookup (scStep m e) c = if comboCodes e.1 = c then some e.2 else cLookup m c := by
  unfold scStep
  rw [cLookup_cons, cLookup_filter_ne]
  by_cases h : comboCodes e.1 = c
  · rw [if_pos h, if_pos h]
  · rw [if_neg h, if_neg h, if_neg (fun e => h e.symm)]

theorem cLookup_scRec (l : List (Combo × W)) (hl : ∀ e ∈ l, ComboOk e.1) (c : Combo) (hc : ComboOk c) :
    cLookup (scRec l) (comboCodes c) = HandRange.lookup l c := by
  induction l with
  | nil => rfl
  | cons e l ih =>
    obtain ⟨k, v⟩ := e
    have hk : ComboOk k := hl (k, v) List.mem_cons_self
    rw [scRec, cLookup_scStep, HandRange.lookup, ih (fun e he => hl e (List.mem_cons_of_mem _ he))]
    by_cases h : k = c
    · subst h
      rw [if_pos rfl, if_pos rfl]
    · rw [if_neg h, if_neg (fun e => h (NotationList.comboCodes_inj hk hc e))]

theorem mem_scRec {l : List (Combo × W)} {x : (Nat × Nat) × W} (h : x ∈ scRec l) :
    ∃ e ∈ l, x = (comboCodes e.1, e.2) := by
  induction l with
  | nil => cases h
  | cons e l ih =>
    rw [scRec, scStep] at h
    rcases List.mem_cons.mp h with rfl | h
    · exact ⟨e, List.mem_cons_self, rfl⟩
    · obtain ⟨e', he', hx⟩ := ih (List.mem_filter.mp h).1
      exact ⟨e', List.mem_cons_of_mem _ he', hx⟩

theorem scRec_keys_nodup (l : List (Combo × W)) : ((scRec l).map Prod.fst).Nodup := by
  induction l with
  | nil => exact List.Pairwise.nil
  | cons e l ih =>
    rw [scRec, scStep, List.map_cons, List.nodup_cons]
    refine ⟨?_, List.Nodup.sublist (List.Sublist.map _ List.filter_sublist) ih⟩
    intro hmem
    obtain ⟨x, hx, hxe⟩ := List.mem_map.mp hmem
    have := (List.mem_filter.mp hx).2
    simp only [bne_iff_ne, ne_eq] at this
    exact this hxe

/-- each combo occurs at most once in the oracle's contents -/
theorem specContents_keys_nodup (es : List (Combo × W)) : ((specContents es).map Prod.fst).Nodup := by
  rw [specContents_eq]; exact scRec_keys_nodup _

/-- every entry of the oracle's contents is an inserted entry, by its codes -/
theorem mem_specContents_src {es : List (Combo × W)} {x : (Nat × Nat) × W} (h : x ∈ specContents es) :
    ∃ e ∈ es, x = (comboCodes e.1, e.2) := by
  rw [specContents_eq] at h
  obtain ⟨e, he, hx⟩ := mem_scRec h
  exact ⟨e, List.mem_reverse.mp he, hx⟩

/-- **the oracle's contents are the model's range**: looking a real combo up by its codes gives what the model's
`lookup` gives on the insert history; the keys are distinct and are codes of real inserted combos -/
theorem cLookup_specContents (es : List (Combo × W)) (hes : ∀ e ∈ es, ComboOk e.1) :
    (∀ c, ComboOk c → cLookup (specContents es) (comboCodes c) = HandRange.lookup es.reverse c)
    ∧ ((specContents es).map Prod.fst).Nodup
    ∧ ∀ x ∈ specContents es, ∃ c w, ComboOk c ∧ (c, w) ∈ es ∧ x = (comboCodes c, w) := by
  refine ⟨fun c hc => ?_, specContents_keys_nodup es, fun x hx => ?_⟩
  · rw [specContents_eq]
    exact cLookup_scRec _ (fun e he => hes e (List.mem_reverse.mp he)) c hc
  · obtain ⟨e, he, rfl⟩ := mem_specContents_src hx
    exact ⟨e.1, e.2, hes e he, he, rfl⟩

/-- membership form: the entries of the oracle's contents are exactly the (combo, current weight) pairs of the
model's range -/
theorem mem_specContents (es : List (Combo × W)) (hes : ∀ e ∈ es, ComboOk e.1) (c : Combo) (hc : ComboOk c) (w : W) :
    (comboCodes c, w) ∈ specContents es ↔ HandRange.lookup es.reverse c = some w := by
  rw [← (cLookup_specContents es hes).1 c hc, cLookup_eq_some_iff (specContents_keys_nodup es)]

theorem specContents_dom {inDom : W → Prop} (es : List (Combo × W)) (hdom : ∀ e ∈ es, inDom e.2) :
    ∀ c w, cLookup (specContents es) c = some w → inDom w := by
  intro c w h
  obtain ⟨e, he, hx⟩ := mem_specContents_src (cLookup_mem h)
  cases hx
  exact hdom e he

/-! ### the report of one rank pair -/

/-- `RankPairFacts.rankPairWeight_probe_iff` from the one assumption it uses -/
theorem entryW_eq_some_iff (wt : WText W) (inDom : W → Prop)
    (heq : ∀ a b, inDom a → inDom b → (wt.eq a b = true ↔ a = b)) (r : HandRange W)
    (hr : ∀ e ∈ r, inDom e.2) (rp : RankPair) (p : W) :
    entryW wt r rp = some p ↔ ∀ cp ∈ rp.combos, r.lookup cp = some p := by
  unfold entryW
  rw [rankPairWeight_eq_some_iff]
  constructor
  · rintro ⟨hp, hall⟩ cp hcp
    obtain ⟨q, hq, he⟩ := hall cp hcp
    rw [hq, (heq q p (lookup_dom hr hq) (lookup_dom hr hp)).mp he]
  · intro hall
    have hp := hall (probeOf rp) (probeOf_mem rp)
    exact ⟨hp, fun cp hcp => ⟨p, hall cp hcp, (heq p p (lookup_dom hr hp) (lookup_dom hr hp)).mpr rfl⟩⟩

/-- for a canonical rank pair the model's probe test and the specification's `reported` give the same answer -/
theorem entryW_eq_reported (wt : WText W) (inDom : W → Prop)
    (heq : ∀ a b, inDom a → inDom b → (wt.eq a b = true ↔ a = b)) (es : List (Combo × W))
    (hes : ∀ e ∈ es, ComboOk e.1) (hdom : ∀ e ∈ es, inDom e.2) (rp : RankPair) (hc : RankPair.canonical rp) :
    entryW wt es.reverse rp = reported wt.eq (specContents es) (toRP rp) := by
  apply Option.ext
  intro w
  rw [entryW_eq_some_iff wt inDom heq es.reverse (fun e he => hdom e (List.mem_reverse.mp he)),
    reported_eq_some_iff_all wt.eq inDom heq _ (specContents_dom es hdom), toRP_combos]
  constructor
  · intro h c' hc'
    obtain ⟨c, hcm, rfl⟩ := List.mem_map.mp hc'
    rw [(cLookup_specContents es hes).1 c (combos_ok hc hcm)]
    exact h c hcm
  · intro h c hcm
    rw [← (cLookup_specContents es hes).1 c (combos_ok hc hcm)]
    exact h _ (List.mem_map_of_mem hcm)

/-- the model probes the FIRST combo of the rank pair, as `Spec.reported` does; every rank pair has a second combo -/
theorem combos_eq_probe_cons (rp : RankPair) : ∃ c₂ tl, rp.combos = probeOf rp :: c₂ :: tl := by
  cases rp <;> exact ⟨_, _, rfl⟩

/-- "what something compares equal to compares equal to itself", for the weights of the entries: all the agreement
theorems need of the comparison.  It follows from equality on a domain (`rrefl_of_heq`), from reflexivity on the weights
present, and it holds of `f32 ==` for ALL values (if `a == b` then `b` is not a NaN, so `b == b`). -/
def RightRefl (weq : W → W → Bool) (es : List (Combo × W)) : Prop :=
  ∀ e ∈ es, ∀ a, weq a e.2 = true → weq e.2 e.2 = true

theorem rrefl_of_heq (weq : W → W → Bool) (inDom : W → Prop)
    (heq : ∀ a b, inDom a → inDom b → (weq a b = true ↔ a = b)) (es : List (Combo × W))
    (hdom : ∀ e ∈ es, inDom e.2) : RightRefl weq es :=
  fun e he _ _ => (heq e.2 e.2 (hdom e he) (hdom e he)).mpr rfl

theorem rrefl_of_refl (weq : W → W → Bool) (es : List (Combo × W)) (h : ∀ e ∈ es, weq e.2 e.2 = true) :
    RightRefl weq es := fun e he _ _ => h e he

theorem rrefl_of_global (weq : W → W → Bool) (es : List (Combo × W)) (h : ∀ a b, weq a b = true → weq b b = true) :
    RightRefl weq es := fun e _ a ha => h a e.2 ha

/-- **the sharp form of the report agreement**: for a canonical rank pair the model's probe test and the
specification's `reported` give the same answer as soon as the comparison is right-reflexive on the weights present
(no equality needed: e.g. `-0.0 == 0.0` is allowed) -/
theorem entryW_eq_reported_of_rrefl (wt : WText W) (es : List (Combo × W))
    (hes : ∀ e ∈ es, ComboOk e.1) (hR : RightRefl wt.eq es) (rp : RankPair) (hc : RankPair.canonical rp) :
    entryW wt es.reverse rp = reported wt.eq (specContents es) (toRP rp) := by
  obtain ⟨c₂, tl, hcomb⟩ := combos_eq_probe_cons rp
  have hL := (cLookup_specContents es hes).1
  have hok : ∀ c ∈ rp.combos, ComboOk c := fun c h => combos_ok hc h
  have hcodes : (toRP rp).combos = comboCodes (probeOf rp) :: (c₂ :: tl).map comboCodes := by
    rw [toRP_combos, hcomb]; rfl
  apply Option.ext
  intro w
  unfold entryW
  rw [rankPairWeight_eq_some_iff, reported_eq_some_iff]
  constructor
  · rintro ⟨hp, hall⟩
    refine ⟨_, _, hcodes, ?_, fun c' hc' => ?_⟩
    · rw [hL _ (hok _ (probeOf_mem rp))]; exact hp
    · obtain ⟨c₀, hc₀, rfl⟩ := List.mem_map.mp hc'
      have hmem : c₀ ∈ rp.combos := by rw [hcomb]; exact List.mem_cons_of_mem _ hc₀
      obtain ⟨q, hq, he⟩ := hall c₀ hmem
      exact ⟨q, by rw [hL _ (hok _ hmem)]; exact hq, he⟩
  · rintro ⟨c, cs, he, hl, hall⟩
    rw [hcodes] at he
    obtain ⟨rfl, rfl⟩ := List.cons.inj he
    have hp : HandRange.lookup es.reverse (probeOf rp) = some w := by
      rw [← hL _ (hok _ (probeOf_mem rp))]; exact hl
    have hrest : ∀ cp ∈ c₂ :: tl, ∃ q, HandRange.lookup es.reverse cp = some q ∧ wt.eq q w = true := by
      intro cp hcp
      have hmem : cp ∈ rp.combos := by rw [hcomb]; exact List.mem_cons_of_mem _ hcp
      obtain ⟨q, hq, he⟩ := hall _ (List.mem_map_of_mem hcp)
      exact ⟨q, by rw [← hL _ (hok _ hmem)]; exact hq, he⟩
    refine ⟨hp, fun cp hcp => ?_⟩
    rw [hcomb] at hcp
    rcases List.mem_cons.mp hcp with rfl | hcp
    · obtain ⟨q, _, he⟩ := hrest c₂ List.mem_cons_self
      exact ⟨w, hp, hR (probeOf rp, w) (List.mem_reverse.mp (lookup_mem hp)) q he⟩
    · exact hrest cp hcp

theorem filterMap_congr_mem {α β : Type} {l : List α} {f g : α → Option β} (h : ∀ a ∈ l, f a = g a) :
    l.filterMap f = l.filterMap g := by
  induction l with
  | nil => rfl
  | cons a rest ih =>
    rw [List.filterMap_cons, List.filterMap_cons, h a List.mem_cons_self,
      ih fun x hx => h x (List.mem_cons_of_mem _ hx)]

/-- **the two rank-pair views are the same list** (under the bijection `toRP`), sharp form -/
theorem rpList_map_eq_rankPairView_of_rrefl (wt : WText W) (es : List (Combo × W))
    (hes : ∀ e ∈ es, ComboOk e.1) (hR : RightRefl wt.eq es) :
    (rpList wt es.reverse).map (fun e => (toRP e.1, e.2)) = rankPairView wt.eq (specContents es) := by
  unfold rankPairView
  rw [rpList_eq_filterMap, List.map_filterMap, allRP_eq_map, List.filterMap_map]
  apply filterMap_congr_mem
  intro rp hrp
  have hc := (mem_allRankPairs rp).mp hrp
  simp only [Function.comp, entryOf, ← entryW_eq_reported_of_rrefl wt es hes hR rp hc, Option.map_map]
  rfl

/-- every entry of `rankPairView` is `toRP` of a canonical rank pair of the model -/
theorem rankPairView_canonical (weq : W → W → Bool) (m : Contents W) (x : RP × W) (hx : x ∈ rankPairView weq m) :
    ∃ rp, RankPair.canonical rp ∧ x.1 = toRP rp := by
  obtain ⟨rp, w⟩ := x
  have h := ((rankPairView_spec_raw weq m rp w).mp hx).1
  refine ⟨ofRP rp, ?_, (toRP_ofRP rp).symm⟩
  rw [← toRP_canonical, toRP_ofRP]
  exact (mem_allRP rp).mp h

/-- **agreement of the rank-pair views, sharp form.**  On entries with real combos and a comparison that is
right-reflexive on their weights, the model's `rank_pairs` of the range built by inserting `es` in order and the
specification's `rankPairView` of the oracle's contents are the same list under the bijection `toRP`. -/
theorem rankPairs_agree_of_rrefl (wt : WText W) (es : List (Combo × W))
    (hes : ∀ e ∈ es, ComboOk e.1) (hR : RightRefl wt.eq es) :
    ∃ l, rankPairs wt es.reverse = .ok l
      ∧ l.map (fun e => (toRP e.1, e.2)) = rankPairView wt.eq (specContents es)
      ∧ (∀ rp w, (rp, w) ∈ l ↔ (toRP rp, w) ∈ rankPairView wt.eq (specContents es))
      ∧ ∀ x ∈ rankPairView wt.eq (specContents es), ∃ rp, RankPair.canonical rp ∧ x.1 = toRP rp := by
  have hmap := rpList_map_eq_rankPairView_of_rrefl wt es hes hR
  refine ⟨rpList wt es.reverse, rankPairs_eq wt _, hmap, fun rp w => ?_, rankPairView_canonical _ _⟩
  rw [← hmap, List.mem_map]
  constructor
  · intro h; exact ⟨(rp, w), h, rfl⟩
  · rintro ⟨⟨rp', w'⟩, h, he⟩
    simp only [Prod.mk.injEq] at he
    obtain ⟨h1, rfl⟩ := he
    rw [← toRP_inj h1]; exact h

/-- the model's range is the one obtained by inserting the entries in order -/
theorem rankPairs_agree_foldl_of_rrefl (wt : WText W) (es : List (Combo × W))
    (hes : ∀ e ∈ es, ComboOk e.1) (hR : RightRefl wt.eq es) :
    ∃ l, rankPairs wt (es.foldl (fun m e => HandRange.insert m e.1 e.2) []) = .ok l
      ∧ l.map (fun e => (toRP e.1, e.2)) = rankPairView wt.eq (specContents es) := by
  rw [RangeAux.foldl_insert_eq, List.append_nil]
  obtain ⟨l, h1, h2, _⟩ := rankPairs_agree_of_rrefl wt es hes hR
  exact ⟨l, h1, h2⟩

/-! ### the leftovers -/

/-- **agreement of the leftover views, sharp form.**  Same hypotheses: a real combo is a leftover of the model with
weight `w` exactly when `(its codes, w)` is an entry of the specification's `orphanView`, and `orphanView` has no other
entries. -/
theorem orphans_agree_of_rrefl (wt : WText W) (es : List (Combo × W))
    (hes : ∀ e ∈ es, ComboOk e.1) (hR : RightRefl wt.eq es) :
    ∃ o, orphans wt es.reverse = .ok o
      ∧ (∀ c, ComboOk c → ∀ w,
          (o.lookup c = some w ↔ (comboCodes c, w) ∈ orphanView wt.eq (specContents es)))
      ∧ ∀ x ∈ orphanView wt.eq (specContents es), ∃ c w, ComboOk c ∧ x = (comboCodes c, w) := by
  obtain ⟨o, ho, hl⟩ := orphans_lookup wt es.reverse
  obtain ⟨l, hl1, _, hmem, hcan⟩ := rankPairs_agree_of_rrefl wt es hes hR
  have hl2 : l = rpList wt es.reverse := by
    have := rankPairs_eq wt es.reverse
    rw [hl1] at this
    exact Res.ok.inj this
  subst hl2
  refine ⟨o, ho, fun c hc w => ?_, fun x hx => ?_⟩
  · rw [hl c, orphanView_spec, mem_specContents es hes c hc]
    constructor
    · intro h
      split at h
      · cases h
      · next hnm =>
        refine ⟨h, fun rp' w' hrp' hcm => hnm ?_⟩
        obtain ⟨rp, hcan', he⟩ := hcan (rp', w') hrp'
        simp only at he
        subst he
        rw [toRP_combos] at hcm
        obtain ⟨c₀, hc₀, hcc⟩ := List.mem_map.mp hcm
        have : c₀ = c := NotationList.comboCodes_inj (combos_ok hcan' hc₀) hc hcc
        subst this
        exact List.mem_flatMap.mpr ⟨(rp, w'), (hmem rp w').mpr hrp', hc₀⟩
    · rintro ⟨h1, h2⟩
      rw [if_neg]
      · exact h1
      · intro hcov
        obtain ⟨⟨rp, w'⟩, hrp, hcm⟩ := List.mem_flatMap.mp hcov
        refine h2 (toRP rp) w' ((hmem rp w').mp hrp) ?_
        rw [toRP_combos]
        exact List.mem_map_of_mem hcm
  · have hxm := ((orphanView_spec wt.eq _ x).mp hx).1
    obtain ⟨c, w, hc, _, hx'⟩ := (cLookup_specContents es hes).2.2 x hxm
    exact ⟨c, w, hc, hx'⟩

/-! ### the agreement theorems under "`wt.eq` is equality on a domain" (the hypothesis of C12) -/

/-- the two rank-pair views are the same list under `toRP` -/
theorem rpList_map_eq_rankPairView (wt : WText W) (inDom : W → Prop)
    (heq : ∀ a b, inDom a → inDom b → (wt.eq a b = true ↔ a = b)) (es : List (Combo × W))
    (hes : ∀ e ∈ es, ComboOk e.1) (hdom : ∀ e ∈ es, inDom e.2) :
    (rpList wt es.reverse).map (fun e => (toRP e.1, e.2)) = rankPairView wt.eq (specContents es) :=
  rpList_map_eq_rankPairView_of_rrefl wt es hes (rrefl_of_heq wt.eq inDom heq es hdom)

/-- **agreement of the rank-pair views.**  On entries with real combos and weights of a domain on which `wt.eq` is
equality, the model's `rank_pairs` of the range built by inserting `es` in order and the specification's
`rankPairView` of the oracle's contents are the same list (hence the same set) under the bijection `toRP`. -/
theorem rankPairs_agree (wt : WText W) (inDom : W → Prop)
    (heq : ∀ a b, inDom a → inDom b → (wt.eq a b = true ↔ a = b)) (es : List (Combo × W))
    (hes : ∀ e ∈ es, ComboOk e.1) (hdom : ∀ e ∈ es, inDom e.2) :
    ∃ l, rankPairs wt es.reverse = .ok l
      ∧ l.map (fun e => (toRP e.1, e.2)) = rankPairView wt.eq (specContents es)
      ∧ (∀ rp w, (rp, w) ∈ l ↔ (toRP rp, w) ∈ rankPairView wt.eq (specContents es))
      ∧ ∀ x ∈ rankPairView wt.eq (specContents es), ∃ rp, RankPair.canonical rp ∧ x.1 = toRP rp :=
  rankPairs_agree_of_rrefl wt es hes (rrefl_of_heq wt.eq inDom heq es hdom)

/-- the same, with the model's range written as the result of the inserts -/
theorem rankPairs_agree_foldl (wt : WText W) (inDom : W → Prop)
    (heq : ∀ a b, inDom a → inDom b → (wt.eq a b = true ↔ a = b)) (es : List (Combo × W))
    (hes : ∀ e ∈ es, ComboOk e.1) (hdom : ∀ e ∈ es, inDom e.2) :
    ∃ l, rankPairs wt (es.foldl (fun m e => HandRange.insert m e.1 e.2) []) = .ok l
      ∧ l.map (fun e => (toRP e.1, e.2)) = rankPairView wt.eq (specContents es) :=
  rankPairs_agree_foldl_of_rrefl wt es hes (rrefl_of_heq wt.eq inDom heq es hdom)

/-- **agreement of the leftover views.**  Same hypotheses: a real combo is a leftover of the model with weight `w`
exactly when `(its codes, w)` is an entry of the specification's `orphanView`, and `orphanView` has no other entries. -/
theorem orphans_agree (wt : WText W) (inDom : W → Prop)
    (heq : ∀ a b, inDom a → inDom b → (wt.eq a b = true ↔ a = b)) (es : List (Combo × W))
    (hes : ∀ e ∈ es, ComboOk e.1) (hdom : ∀ e ∈ es, inDom e.2) :
    ∃ o, orphans wt es.reverse = .ok o
      ∧ (∀ c, ComboOk c → ∀ w,
          (o.lookup c = some w ↔ (comboCodes c, w) ∈ orphanView wt.eq (specContents es)))
      ∧ ∀ x ∈ orphanView wt.eq (specContents es), ∃ c w, ComboOk c ∧ x = (comboCodes c, w) :=
  orphans_agree_of_rrefl wt es hes (rrefl_of_heq wt.eq inDom heq es hdom)

/-- the same, with the model's range written as the result of the inserts -/
theorem orphans_agree_foldl (wt : WText W) (inDom : W → Prop)
    (heq : ∀ a b, inDom a → inDom b → (wt.eq a b = true ↔ a = b)) (es : List (Combo × W))
    (hes : ∀ e ∈ es, ComboOk e.1) (hdom : ∀ e ∈ es, inDom e.2) :
    ∃ o, orphans wt (es.foldl (fun m e => HandRange.insert m e.1 e.2) []) = .ok o
      ∧ ∀ c, ComboOk c → ∀ w,
          (o.lookup c = some w ↔ (comboCodes c, w) ∈ orphanView wt.eq (specContents es)) := by
  rw [RangeAux.foldl_insert_eq, List.append_nil]
  obtain ⟨o, h1, h2, _⟩ := orphans_agree wt inDom heq es hes hdom
  exact ⟨o, h1, h2⟩

/-! ### the hypothesis on the comparison cannot be dropped altogether

With a comparison that is not right-reflexive the two definitions differ: the model compares the probed combo with
itself, the specification does not.  (Weights `false` / `true`, `a == b` iff `a ∧ ¬ b`; AKs with AsKs at `false` and
the other three at `true`.)  No such comparison is `f32 ==`. -/

namespace RangeViewsCounter

def wtBad : WText Bool := { one := true, eq := fun a b => a && !b, showW := fun _ => [], parseW := fun _ => none }

def esBad : List (Combo × Bool) :=
  [(⟨⟨0, 0⟩, ⟨1, 0⟩⟩, false), (⟨⟨0, 1⟩, ⟨1, 1⟩⟩, true), (⟨⟨0, 2⟩, ⟨1, 2⟩⟩, true), (⟨⟨0, 3⟩, ⟨1, 3⟩⟩, true)]

theorem spec_reports : rankPairView wtBad.eq (specContents esBad) = [(.suited 0 1, false)] := by decide +kernel
theorem model_does_not : rankPairs wtBad esBad.reverse = .ok [] := by decide +kernel
theorem not_rrefl : ¬ RightRefl wtBad.eq esBad :=
  fun h => absurd (h (⟨⟨0, 0⟩, ⟨1, 0⟩⟩, false) (by decide) true (by decide)) (by decide)

end RangeViewsCounter

/-- the leftover view lists each combo at most once when the contents do -/
theorem orphanView_keys_nodup (weq : W → W → Bool) (m : Contents W) (h : (m.map Prod.fst).Nodup) :
    ((orphanView weq m).map Prod.fst).Nodup :=
  List.Nodup.sublist (List.Sublist.map _ List.filter_sublist) h

/-! ## D. a concrete run

AKs is inserted completely with mixed weights (1, 0, 1, 1), then QQ with five combos at 0.5 and one at 1, then AKs
again completely at 0.5 (overwriting the first round), then the offsuit combo AsKh at 1.  Only AKs is a complete rank
pair with one weight; AsKh and the six QQ combos are leftovers. -/

namespace RangeViewsExample
open Witness

def ak (s t : Nat) : Combo := ⟨⟨0, s⟩, ⟨1, t⟩⟩
def qq (s t : Nat) : Combo := ⟨⟨2, s⟩, ⟨2, t⟩⟩

/-- the entries in insertion order -/
def es : List (Combo × Wt) :=
  [(ak 0 0, .one), (ak 1 1, .zero), (ak 2 2, .one), (ak 3 3, .one),
   (qq 0 1, .half), (qq 0 2, .half), (qq 0 3, .half), (qq 1 2, .half), (qq 1 3, .half), (qq 2 3, .one),
   (ak 0 0, .half), (ak 1 1, .half), (ak 2 2, .half), (ak 3 3, .half),
   (ak 0 1, .one)]

theorem es_ok : ∀ e ∈ es, ComboOk e.1 := by
  show ∀ e ∈ es, (e.1.fst.valid = true ∧ e.1.snd.valid = true ∧ Card.lt e.1.fst e.1.snd = true)
  decide

theorem es_dom : ∀ e ∈ es, wtDom e.2 := by decide

/-- the oracle's contents: 11 different combos, the first round of AKs is gone -/
theorem contents_eq : specContents es =
    [((0, 5), .one), ((3, 7), .half), ((2, 6), .half), ((1, 5), .half), ((0, 4), .half),
     ((10, 11), .one), ((9, 11), .half), ((9, 10), .half), ((8, 11), .half), ((8, 10), .half), ((8, 9), .half)] := by
  decide +kernel

/-- the specification reports exactly AKs at 0.5 -/
theorem view_eq : rankPairView wtText.eq (specContents es) = [(.suited 0 1, .half)] := by decide +kernel

/-- the specification's leftovers: AsKh and all six QQ combos (one of them has another weight) -/
theorem orph_eq : orphanView wtText.eq (specContents es) =
    [((0, 5), .one), ((10, 11), .one), ((9, 11), .half), ((9, 10), .half), ((8, 11), .half), ((8, 10), .half),
     ((8, 9), .half)] := by
  decide +kernel

/-- A: `reported_eq_some_iff` at AKs (first combo `(0, 4)` = AsKs) and at QQ (not reported: `(10, 11)` differs) -/
example : ∃ c cs, (RP.suited 0 1).combos = c :: cs ∧ cLookup (specContents es) c = some Wt.half ∧
    ∀ c' ∈ cs, ∃ w', cLookup (specContents es) c' = some w' ∧ wtText.eq w' Wt.half = true :=
  (reported_eq_some_iff wtText.eq (specContents es) (.suited 0 1) .half).mp (by decide +kernel)

example : reported wtText.eq (specContents es) (.pocket 2) = none := by decide +kernel

/-- A: `rankPairView_spec_raw`, `orphanView_spec` -/
example : RP.suited 0 1 ∈ allRP ∧ reported wtText.eq (specContents es) (.suited 0 1) = some Wt.half :=
  (rankPairView_spec_raw wtText.eq (specContents es) (.suited 0 1) .half).mp (by rw [view_eq]; decide)

example : ((0, 5), Wt.one) ∈ specContents es ∧
    ∀ rp w, (rp, w) ∈ rankPairView wtText.eq (specContents es) → ((0, 5), Wt.one).1 ∉ rp.combos :=
  (orphanView_spec wtText.eq (specContents es) ((0, 5), .one)).mp (by rw [orph_eq]; decide)

/-- B: all four AKs combos are present with 0.5; the hypotheses hold of the concrete weights -/
example : RP.suited 0 1 ∈ allRP ∧ ∀ c ∈ (RP.suited 0 1).combos, cLookup (specContents es) c = some Wt.half :=
  (rankPairView_spec wtText.eq wtDom wtextOk.eq_iff (specContents es) (specContents_dom es es_dom)
    (.suited 0 1) .half).mp (by rw [view_eq]; decide)

example : ((10, 11), Wt.one) ∈ specContents es ∧ ∀ rp ∈ allRP, ∀ w,
    (∀ c ∈ rp.combos, cLookup (specContents es) c = some w) → ((10, 11), Wt.one).1 ∉ rp.combos :=
  (orphanView_spec' wtText.eq wtDom wtextOk.eq_iff (specContents es) (specContents_dom es es_dom)
    ((10, 11), .one)).mp (by rw [orph_eq]; decide)

/-- C: looking AsKs up in the oracle's contents is looking it up in the model's range -/
example : cLookup (specContents es) (0, 4) = HandRange.lookup es.reverse (ak 0 0) :=
  (cLookup_specContents es es_ok).1 (ak 0 0) (es_ok (ak 0 0, .half) (by decide))

/-- C: the model's `rank_pairs` on the range built from `es`, OBTAINED from the specification's view through
`rankPairs_agree` -/
theorem model_view : rankPairs wtText es.reverse = .ok [(RankPair.suited 0 1, Wt.half)] := by
  obtain ⟨l, h1, h2, _, _⟩ := rankPairs_agree wtText wtDom wtextOk.eq_iff es es_ok es_dom
  rw [view_eq] at h2
  match l, h2 with
  | [(rp, w)], h2 =>
    simp only [List.map_cons, List.map_nil, List.cons.injEq, Prod.mk.injEq, and_true] at h2
    obtain ⟨h3, rfl⟩ := h2
    have : rp = .suited 0 1 := toRP_inj (a := rp) (b := .suited 0 1) h3
    rw [h1, this]

/-- … and the same fact computed directly on the model -/
example : rankPairs wtText es.reverse = .ok [(RankPair.suited 0 1, Wt.half)] := by decide +kernel

/-- C: the range is the one the inserts build -/
example : ∃ l, rankPairs wtText (es.foldl (fun m e => HandRange.insert m e.1 e.2) []) = .ok l
    ∧ l.map (fun e => (toRP e.1, e.2)) = [(RP.suited 0 1, Wt.half)] := by
  rw [← view_eq]
  exact rankPairs_agree_foldl wtText wtDom wtextOk.eq_iff es es_ok es_dom

/-- C: the model's leftovers, OBTAINED from the specification's through `orphans_agree`: AsKh stays with its weight,
AsKs (covered by AKs) goes, QdQc stays with weight 1 -/
theorem model_orphans : ∃ o, orphans wtText es.reverse = .ok o
    ∧ o.lookup (ak 0 1) = some .one ∧ o.lookup (ak 0 0) = none ∧ o.lookup (qq 2 3) = some .one := by
  obtain ⟨o, h1, h2, _⟩ := orphans_agree wtText wtDom wtextOk.eq_iff es es_ok es_dom
  refine ⟨o, h1, ?_, ?_, ?_⟩
  · exact (h2 (ak 0 1) (es_ok (ak 0 1, .one) (by decide)) .one).mpr (by rw [orph_eq]; decide)
  · cases h : o.lookup (ak 0 0) with
    | none => rfl
    | some w =>
      have := (h2 (ak 0 0) (es_ok (ak 0 0, .half) (by decide)) w).mp h
      rw [orph_eq] at this
      revert this
      cases w <;> decide
  · exact (h2 (qq 2 3) (es_ok (qq 2 3, .one) (by decide)) .one).mpr (by rw [orph_eq]; decide)

/-! the sharp forms, with a comparison that is NOT equality: 0 and 0.5 compare equal (like `-0.0 == 0.0`) and 2 compares
equal to nothing, not even itself (like a NaN).  AKs at 0, 0.5, 0.5, 0 is reported (with the weight of the probed
combo AsKs) by both sides; KQs at 2, 2, 2, 2 by neither. -/

def wtLoose : WText Wt :=
  { wtText with eq := fun a b => a != .two && b != .two && (a == b || (a != .one && b != .one)) }

def kq (s t : Nat) : Combo := ⟨⟨1, s⟩, ⟨2, t⟩⟩

def es2 : List (Combo × Wt) :=
  [(ak 0 0, .zero), (ak 1 1, .half), (ak 2 2, .half), (ak 3 3, .zero),
   (kq 0 0, .two), (kq 1 1, .two), (kq 2 2, .two), (kq 3 3, .two)]

theorem es2_ok : ∀ e ∈ es2, ComboOk e.1 := by
  show ∀ e ∈ es2, (e.1.fst.valid = true ∧ e.1.snd.valid = true ∧ Card.lt e.1.fst e.1.snd = true)
  decide

theorem wtLoose_rrefl : RightRefl wtLoose.eq es2 :=
  rrefl_of_global _ _ (by intro a b; cases a <;> cases b <;> decide)

/-- it is not equality, and not reflexive -/
example : wtLoose.eq .zero .half = true ∧ wtLoose.eq .two .two = false := by decide

theorem view2_eq : rankPairView wtLoose.eq (specContents es2) = [(.suited 0 1, .zero)] := by decide +kernel

example : ∃ l, rankPairs wtLoose es2.reverse = .ok l
    ∧ l.map (fun e => (toRP e.1, e.2)) = [(RP.suited 0 1, Wt.zero)] := by
  obtain ⟨l, h1, h2, _⟩ := rankPairs_agree_of_rrefl wtLoose es2 es2_ok wtLoose_rrefl
  exact ⟨l, h1, by rw [h2, view2_eq]⟩

example : rankPairs wtLoose es2.reverse = .ok [(RankPair.suited 0 1, Wt.zero)] := by decide +kernel

/-- the four KQs combos are leftovers on both sides -/
example : ∃ o, orphans wtLoose es2.reverse = .ok o ∧ o.lookup (kq 2 2) = some .two := by
  obtain ⟨o, h1, h2, _⟩ := orphans_agree_of_rrefl wtLoose es2 es2_ok wtLoose_rrefl
  exact ⟨o, h1, (h2 (kq 2 2) (es2_ok (kq 2 2, .two) (by decide)) .two).mpr (by decide +kernel)⟩

end RangeViewsExample

/-! ## E. an arbitrary model range, hypotheses on its CONTENTS

Parts C/D take the inserted entries `es` (what the driver's oracle is given) and ask `ComboOk` / `inDom` of every insert,
overwritten ones included.  For an arbitrary model range `r` (any insert history) the same agreement holds with the
hypothesis on what `lookup` answers, the specification being fed the range's contents (oldest first). -/

/-- the entries the oracle is fed for a model range: its contents, oldest first -/
def entriesOf (r : HandRange W) : List (Combo × W) := (HandRange.contents r).reverse

theorem entriesOf_hyp {P : Combo → W → Prop} (r : HandRange W) (hr : ∀ c w, r.lookup c = some w → P c w) :
    ∀ e ∈ entriesOf r, P e.1 e.2 :=
  fun e he => hr e.1 e.2 (C12.lookup_of_mem_contents r e (List.mem_reverse.mp he))

/-- the specification's contents answer as the model range does -/
theorem cLookup_entriesOf (r : HandRange W) (hr : ∀ c w, r.lookup c = some w → ComboOk c) (c : Combo) (hc : ComboOk c) :
    cLookup (specContents (entriesOf r)) (comboCodes c) = r.lookup c := by
  rw [(cLookup_specContents (entriesOf r) (entriesOf_hyp (P := fun c _ => ComboOk c) r hr)).1 c hc]
  show HandRange.lookup (HandRange.contents r).reverse.reverse c = r.lookup c
  rw [List.reverse_reverse]
  exact C12.lookup_contents r c

/-- **the model's `rank_pairs()` is the specification's rank-pair view of the range's contents** -/
theorem rankPairs_agree_contents (wt : WText W) (inDom : W → Prop)
    (heq : ∀ a b, inDom a → inDom b → (wt.eq a b = true ↔ a = b)) (r : HandRange W)
    (hr : ∀ c w, r.lookup c = some w → ComboOk c ∧ inDom w) :
    ∃ l, rankPairs wt r = .ok l ∧
      l.map (fun e => (toRP e.1, e.2)) = rankPairView wt.eq (specContents (entriesOf r)) ∧
      (∀ rp w, (rp, w) ∈ l ↔ (toRP rp, w) ∈ rankPairView wt.eq (specContents (entriesOf r))) ∧
      ∀ x ∈ rankPairView wt.eq (specContents (entriesOf r)), ∃ rp, RankPair.canonical rp ∧ x.1 = toRP rp := by
  have hes := entriesOf_hyp (P := fun c w => ComboOk c ∧ inDom w) r hr
  obtain ⟨l, hl, h⟩ := rankPairs_agree wt inDom heq (entriesOf r) (fun e he => (hes e he).1) (fun e he => (hes e he).2)
  have e1 : (entriesOf r).reverse = HandRange.contents r := List.reverse_reverse _
  rw [e1, (C17.C17_canonical wt (HandRange.contents r) r (C12.lookup_contents r)).2.1] at hl
  exact ⟨l, hl, h⟩

/-- **the model's `orphan_card_pairs()` is the specification's leftover view of the range's contents** -/
theorem orphans_agree_contents (wt : WText W) (inDom : W → Prop)
    (heq : ∀ a b, inDom a → inDom b → (wt.eq a b = true ↔ a = b)) (r : HandRange W)
    (hr : ∀ c w, r.lookup c = some w → ComboOk c ∧ inDom w) :
    ∃ o, orphans wt r = .ok o ∧
      (∀ c, ComboOk c → ∀ w,
        (o.lookup c = some w ↔ (comboCodes c, w) ∈ orphanView wt.eq (specContents (entriesOf r)))) ∧
      ∀ x ∈ orphanView wt.eq (specContents (entriesOf r)), ∃ c w, ComboOk c ∧ x = (comboCodes c, w) := by
  have hes := entriesOf_hyp (P := fun c w => ComboOk c ∧ inDom w) r hr
  obtain ⟨o', ho', h1, h2⟩ := orphans_agree wt inDom heq (entriesOf r) (fun e he => (hes e he).1)
    (fun e he => (hes e he).2)
  have e1 : (entriesOf r).reverse = HandRange.contents r := List.reverse_reverse _
  rw [e1] at ho'
  refine ⟨_, RankPairFacts.orphans_eq wt r, fun c hc w => ?_, h2⟩
  have := (C17.C17_canonical wt (HandRange.contents r) r (C12.lookup_contents r)).2.2 o' _ ho'
    (RankPairFacts.orphans_eq wt r) c
  rw [← this]
  exact h1 c hc w


/-- at the float-like witness of `Props/C12General.lean` (a NaN insert overwritten by 1.5, weights outside [0,1]): the
history hypothesis of `rankPairs_agree` fails there, the contents hypothesis holds -/
example : ∃ l, rankPairs C12.fwText C12.fwRange = .ok l ∧
    l.map (fun e => (toRP e.1, e.2)) = rankPairView C12.fwText.eq (specContents (entriesOf C12.fwRange)) :=
  let ⟨l, h1, h2, _⟩ := rankPairs_agree_contents C12.fwText C12.fwDom C12.fw_heq C12.fwRange (by
    intro c w h
    refine ⟨?_, C12.fwRange_dom c w h⟩
    simp only [C12.fwRange, HandRange.lookup] at h
    repeat' split at h
    all_goals first
      | (subst_vars; exact ⟨by decide, by decide, by decide⟩)
      | cases h)
  ⟨l, h1, h2⟩

end EspadaVerif.Spec
