/-
Lemmas/IterLoop: the loop of `next` and the drain.  `Runs s outs s'` records a finite run of `step`
(one output per raw position: `some sd` = yield, `none` = skip); the iterator of a proper input runs
through `positionsBetween a b × product ranges` in order and stops at `b`.
-/
import EspadaVerif.Lemmas.IterAttempt

namespace EspadaVerif.IterLemmas
open EspadaVerif Spec EspadaVerif.C02

variable {W : Type}

/-! ### runs of `step` -/

inductive Runs (ops : WOps W) : IterState W → List (Option (Showdown W)) → IterState W → Prop
  | nil (s : IterState W) : Runs ops s [] s
  | yield {s s1 s' : IterState W} {sd : Showdown W} {outs : List (Option (Showdown W))} :
      step ops s = .ok (.yield sd, s1) → Runs ops s1 outs s' → Runs ops s (some sd :: outs) s'
  | skip {s s1 s' : IterState W} {outs : List (Option (Showdown W))} :
      step ops s = .ok (.skip, s1) → Runs ops s1 outs s' → Runs ops s (none :: outs) s'

theorem advance_entries (s : IterState W) : (advance s).entries = s.entries := by
  unfold advance
  split
  · rfl
  · split <;> rfl

theorem step_entries (ops : WOps W) {s s' : IterState W} {o : StepOut W} (h : step ops s = .ok (o, s')) :
    s'.entries = s.entries := by
  unfold step at h
  split at h
  · cases h; rfl
  · split at h
    · cases h; rfl
    · split at h
      · cases h; exact advance_entries s
      · cases h; exact advance_entries s
      · cases h

theorem Runs.entries {ops : WOps W} {s s' : IterState W} {outs : List (Option (Showdown W))}
    (h : Runs ops s outs s') : s'.entries = s.entries := by
  induction h with
  | nil => rfl
  | yield hs _ ih => rw [ih, step_entries ops hs]
  | skip hs _ ih => rw [ih, step_entries ops hs]

theorem Runs.append {ops : WOps W} {s s1 s2 : IterState W} {o1 o2 : List (Option (Showdown W))}
    (h1 : Runs ops s o1 s1) (h2 : Runs ops s1 o2 s2) : Runs ops s (o1 ++ o2) s2 := by
  induction h1 with
  | nil => exact h2
  | yield hs _ ih => exact Runs.yield hs (ih h2)
  | skip hs _ ih => exact Runs.skip hs (ih h2)

theorem Runs.cons_out {ops : WOps W} {s s1 s' : IterState W} {o : Option (Showdown W)}
    {outs : List (Option (Showdown W))}
    (hs : step ops s = match o with
      | some sd => .ok (.yield sd, s1)
      | none => .ok (.skip, s1))
    (h : Runs ops s1 outs s') : Runs ops s (o :: outs) s' := by
  cases o with
  | some sd => exact Runs.yield hs h
  | none => exact Runs.skip hs h

theorem fuelFor_eq {s s' : IterState W} (h : s'.entries = s.entries) : fuelFor s' = fuelFor s := by
  unfold fuelFor; rw [h]

/-- `next` along a run that ends in a `done` state, with enough fuel -/
theorem nextFuel_spec (ops : WOps W) {s sEnd : IterState W} {outs : List (Option (Showdown W))}
    (hr : Runs ops s outs sEnd) (hdone : step ops sEnd = .ok (.done, sEnd)) :
    ∀ fuel, outs.length < fuel →
      (outs.filterMap id = [] → nextFuel ops fuel s = .ok (none, sEnd))
      ∧ (∀ sd rest, outs.filterMap id = sd :: rest →
          ∃ s1 outs1, nextFuel ops fuel s = .ok (some sd, s1) ∧ Runs ops s1 outs1 sEnd
            ∧ outs1.filterMap id = rest ∧ outs1.length ≤ outs.length) := by
  induction hr with
  | nil s =>
    intro fuel hf
    cases fuel with
    | zero => cases hf
    | succ f =>
      refine ⟨fun _ => ?_, fun sd rest h => ?_⟩
      · simp only [nextFuel, hdone]
      · simp at h
  | @yield s s1 s' sd outs hs hr' _ =>
    intro fuel hf
    cases fuel with
    | zero => cases hf
    | succ f =>
      refine ⟨fun h => ?_, fun sd' rest h => ?_⟩
      · simp at h
      · simp only [List.filterMap_cons, id, List.cons.injEq] at h
        obtain ⟨rfl, rfl⟩ := h
        exact ⟨s1, outs, by simp only [nextFuel, hs], hr', rfl, by simp⟩
  | @skip s s1 s' outs hs _ ih =>
    intro fuel hf
    cases fuel with
    | zero => cases hf
    | succ f =>
      have hf' : outs.length < f := by simp at hf; omega
      obtain ⟨ih1, ih2⟩ := ih hdone f hf'
      refine ⟨fun h => ?_, fun sd' rest h => ?_⟩
      · simp only [nextFuel, hs]
        exact ih1 (by simpa using h)
      · obtain ⟨s2, outs2, h1, h2, h3, h4⟩ := ih2 sd' rest (by simpa using h)
        refine ⟨s2, outs2, ?_, h2, h3, by simp; omega⟩
        simp only [nextFuel, hs]
        exact h1

/-- draining a run that ends in a `done` state -/
theorem drain_spec (ops : WOps W) (sEnd : IterState W) (hdone : step ops sEnd = .ok (.done, sEnd)) :
    ∀ (sds : List (Showdown W)) (s : IterState W) (outs : List (Option (Showdown W))) (acc : List (Showdown W))
      (limit : Nat), Runs ops s outs sEnd → outs.length < fuelFor sEnd → outs.filterMap id = sds →
      sds.length < limit → drainFuel ops limit s acc = .ok (acc.reverse ++ sds, sEnd) := by
  intro sds
  induction sds with
  | nil =>
    intro s outs acc limit hr hfuel hsds hlim
    cases limit with
    | zero => cases hlim
    | succ l =>
      have hF : fuelFor s = fuelFor sEnd := (fuelFor_eq hr.entries).symm
      have := (nextFuel_spec ops hr hdone (fuelFor s) (by omega)).1 hsds
      simp only [drainFuel, next, this, List.append_nil]
  | cons sd rest ih =>
    intro s outs acc limit hr hfuel hsds hlim
    cases limit with
    | zero => cases hlim
    | succ l =>
      have hF : fuelFor s = fuelFor sEnd := (fuelFor_eq hr.entries).symm
      obtain ⟨s1, outs1, h1, h2, h3, h4⟩ := (nextFuel_spec ops hr hdone (fuelFor s) (by omega)).2 sd rest hsds
      simp only [drainFuel, next, h1]
      rw [ih s1 outs1 (sd :: acc) l h2 (by omega) h3 (by simp at hlim; omega)]
      simp

/-- after the drain, `next` keeps returning `None` -/
theorem next_done (ops : WOps W) (sEnd : IterState W) (hdone : step ops sEnd = .ok (.done, sEnd)) :
    next ops sEnd = .ok (none, sEnd) := by
  have := (nextFuel_spec ops (Runs.nil sEnd) hdone (fuelFor sEnd) (by simp [fuelFor])).1 rfl
  exact this

/-! ### the iterator of a proper input -/

/-- the output of the raw position `(p, ch)`: the showdown of its deal when legal -/
def outOf (ops : WOps W) (flop : List Card) (p : Nat × Nat) (ch : List (Combo × W)) : Option (Showdown W) :=
  if Deal.legal (flop.map Card.code) (dealOf flop p ch) = true then
    match showdownOfDeal ops flop (dealOf flop p ch) with
    | .ok (some sd) => some sd
    | _ => none
  else none

/-- every entry of every range is a canonical combo of valid cards -/
def RWf (ranges : List (List (Combo × W))) : Prop := ∀ es ∈ ranges, ChWf es

theorem chWf_of_pick {ranges : List (List (Combo × W))} (hr : RWf ranges) {v : List Nat} {ch : List (Combo × W)}
    (h : pick ranges v = some ch) : ChWf ch := by
  intro e he
  obtain ⟨es, hes, hm⟩ := mem_pick h e he
  exact hr es hes e hm

theorem chWf_of_product {ranges : List (List (Combo × W))} (hr : RWf ranges) {ch : List (Combo × W)}
    (h : ch ∈ product ranges) : ChWf ch := by
  intro e he
  obtain ⟨es, hes, hm⟩ := mem_product h e he
  exact hr es hes e hm

theorem attempt_out (ops : WOps W) (flop : List Card) (ranges : List (List (Combo × W))) (b p : Nat × Nat)
    (v : List Nat) (ch : List (Combo × W)) (hf : WfFlop flop) (hp : p.1 < p.2 ∧ p.2 < 49)
    (hpick : pick ranges v = some ch) (hch : ChWf ch) :
    attempt ops (st flop ranges b p v) = .ok (outOf ops flop p ch) := by
  unfold outOf
  cases hleg : Deal.legal (flop.map Card.code) (dealOf flop p ch) with
  | true =>
    obtain ⟨sd, hsd, _⟩ := payload_core ops flop p ch hf hp hch hleg
    rw [attempt_legal ops flop ranges b p v ch hf hp hpick hch hleg, hsd]
    simp
  | false =>
    rw [attempt_illegal ops flop ranges b p v ch hf hp hpick hch hleg]
    simp

theorem step_st (ops : WOps W) (flop : List Card) (ranges : List (List (Combo × W))) (b p : Nat × Nat)
    (v : List Nat) (ch : List (Combo × W)) (hf : WfFlop flop) (hp : p.1 < p.2 ∧ p.2 < 49)
    (hlt : posLt p b = true) (hne : ∀ es ∈ ranges, es ≠ [])
    (hpick : pick ranges v = some ch) (hch : ChWf ch) :
    step ops (st flop ranges b p v) = match outOf ops flop p ch with
      | some sd => .ok (.yield sd, advance (st flop ranges b p v))
      | none => .ok (.skip, advance (st flop ranges b p v)) := by
  have h1 : (decide ((st flop ranges b p v).t ≥ (st flop ranges b p v).turnTo)
      && decide ((st flop ranges b p v).r ≥ (st flop ranges b p v).riverTo)) = false := stop_false hlt
  have h2 : (st flop ranges b p v).entries.any List.isEmpty = false := by
    rw [List.any_eq_false]
    intro es hes
    have := hne es hes
    cases es with
    | nil => exact absurd rfl this
    | cons _ _ => simp
  unfold step
  rw [h1, h2, attempt_out ops flop ranges b p v ch hf hp hpick hch]
  simp only [Bool.false_eq_true, if_false]
  cases outOf ops flop p ch <;> rfl

theorem step_done (ops : WOps W) (flop : List Card) (ranges : List (List (Combo × W))) (b : Nat × Nat)
    (v : List Nat) : step ops (st flop ranges b b v) = .ok (.done, st flop ranges b b v) := by
  have h1 : (decide ((st flop ranges b b v).t ≥ (st flop ranges b b v).turnTo)
      && decide ((st flop ranges b b v).r ≥ (st flop ranges b b v).riverTo)) = true := stop_true b
  unfold step
  rw [h1]
  simp

theorem step_empty (ops : WOps W) (flop : List Card) (ranges : List (List (Combo × W))) (b p : Nat × Nat)
    (v : List Nat) (h : ∃ es ∈ ranges, es = []) :
    step ops (st flop ranges b p v) = .ok (.done, st flop ranges b p v) := by
  have h2 : (st flop ranges b p v).entries.any List.isEmpty = true := by
    rw [List.any_eq_true]
    obtain ⟨es, hes, rfl⟩ := h
    exact ⟨[], hes, rfl⟩
  unfold step
  rw [h2]
  split <;> simp

theorem advance_some (flop : List Card) (ranges : List (List (Combo × W))) (b p : Nat × Nat) (v : List Nat)
    (k : Nat) (h : incrementable v (ranges.map List.length) = some k) :
    advance (st flop ranges b p v) = st flop ranges b p (bump v k) := by
  unfold advance
  simp only [st] at h ⊢
  rw [h]
  rfl

theorem advance_none (flop : List Card) (ranges : List (List (Combo × W))) (b p : Nat × Nat) (v : List Nat)
    (h : incrementable v (ranges.map List.length) = none) (hlen : v.length = ranges.length) :
    advance (st flop ranges b p v) = st flop ranges b (nextPos p) (List.replicate ranges.length 0) := by
  unfold advance
  simp only [st] at h ⊢
  rw [h]
  simp only [nextPos, show Gen.riverRollover = 48 from rfl, hlen]
  split <;> rfl

/-- from counters `v` at position `p`: the rest of the row, then the start of the next position -/
theorem run_row (ops : WOps W) (flop : List Card) (ranges : List (List (Combo × W))) (b p : Nat × Nat)
    (hf : WfFlop flop) (hr : RWf ranges) (hp : p.1 < p.2 ∧ p.2 < 49)
    (hlt : posLt p b = true) (hne : ∀ es ∈ ranges, es ≠ []) :
    ∀ (l : List (List (Combo × W))) (v : List Nat) (ch : List (Combo × W)),
      afterE ranges v = l → pick ranges v = some ch → v.length = ranges.length →
      Runs ops (st flop ranges b p v) ((ch :: l).map (outOf ops flop p))
        (st flop ranges b (nextPos p) (List.replicate ranges.length 0)) := by
  intro l
  induction l with
  | nil =>
    intro v ch hl hpick hlen
    have hstep := step_st ops flop ranges b p v ch hf hp hlt hne hpick (chWf_of_pick hr hpick)
    cases hinc : incrementable v (ranges.map List.length) with
    | some k =>
      obtain ⟨ch', _, h2⟩ := odo_some ranges hne v k hinc hlen ⟨ch, hpick⟩
      rw [hl] at h2
      cases h2
    | none =>
      rw [advance_none flop ranges b p v hinc hlen] at hstep
      exact Runs.cons_out hstep (Runs.nil _)
  | cons c l' ih =>
    intro v ch hl hpick hlen
    have hstep := step_st ops flop ranges b p v ch hf hp hlt hne hpick (chWf_of_pick hr hpick)
    cases hinc : incrementable v (ranges.map List.length) with
    | none =>
      rw [odo_none ranges v hinc] at hl
      cases hl
    | some k =>
      obtain ⟨ch', h1, h2⟩ := odo_some ranges hne v k hinc hlen ⟨ch, hpick⟩
      rw [hl] at h2
      simp only [List.cons.injEq] at h2
      obtain ⟨rfl, rfl⟩ := h2
      rw [advance_some flop ranges b p v k hinc] at hstep
      have hlen' : (bump v k).length = ranges.length := by rw [bump_length hinc, hlen]
      exact Runs.cons_out hstep (ih (bump v k) c rfl h1 hlen')

/-- from the start of position `p` to the bound `b` -/
theorem run_positions (ops : WOps W) (flop : List Card) (ranges : List (List (Combo × W))) (b : Nat × Nat)
    (hf : WfFlop flop) (hr : RWf ranges) (hne : ∀ es ∈ ranges, es ≠ []) (hb : validPos b = true) :
    ∀ (l : List (Nat × Nat)) (p : Nat × Nat), positionsBetween p b = l → validPos p = true →
      posLe p b = true →
      Runs ops (st flop ranges b p (List.replicate ranges.length 0))
        (l.flatMap fun q => (product ranges).map (outOf ops flop q))
        (st flop ranges b b (List.replicate ranges.length 0)) := by
  intro l
  induction l with
  | nil =>
    intro p hl hpv hle
    rcases (posLe_iff p b).mp hle with hlt | rfl
    · obtain ⟨hp, _, _⟩ := nextPos_valid hpv hb hlt
      rw [positionsBetween_step hp hlt] at hl
      cases hl
    · exact Runs.nil _
  | cons q l' ih =>
    intro p hl hpv hle
    rcases (posLe_iff p b).mp hle with hlt | rfl
    · obtain ⟨hp, hnv, hnle⟩ := nextPos_valid hpv hb hlt
      rw [positionsBetween_step hp hlt] at hl
      simp only [List.cons.injEq] at hl
      obtain ⟨rfl, rfl⟩ := hl
      obtain ⟨ch0, hp0, hprod⟩ := odo_zero ranges hne
      have hrow := run_row ops flop ranges b p hf hr hp hlt hne (afterE ranges (List.replicate ranges.length 0))
        (List.replicate ranges.length 0) ch0 rfl hp0 (by simp)
      rw [← hprod] at hrow
      rw [List.flatMap_cons]
      exact hrow.append (ih (nextPos p) rfl hnv hnle)
    · rw [positionsBetween_self] at hl
      cases hl

/-! ### the specification side -/

theorem deals_eq (flop : List Card) (ranges : List (List (Combo × W))) (a b : Nat × Nat) :
    deals (flop.map Card.code) (specEntries ranges) a b
      = (positionsBetween a b).flatMap fun p =>
          ((product ranges).map (dealOf flop p)).filter (Deal.legal (flop.map Card.code)) := by
  unfold deals
  rw [specEntries_eq, product_map]
  simp only [List.map_map]
  rfl

theorem row_eq (ops : WOps W) (flop : List Card) (p : Nat × Nat) (hf : WfFlop flop) (hp : p.1 < p.2 ∧ p.2 < 49)
    (l : List (List (Combo × W))) (hl : ∀ ch ∈ l, ChWf ch) :
    ((l.map (dealOf flop p)).filter (Deal.legal (flop.map Card.code))).map (showdownOfDeal ops flop)
      = ((l.map (outOf ops flop p)).filterMap id).map (fun sd => Res.ok (some sd)) := by
  induction l with
  | nil => rfl
  | cons ch l ih =>
    have ih' := ih (fun c hc => hl c (List.mem_cons_of_mem _ hc))
    simp only [List.map_cons, List.filter_cons, List.filterMap_cons, id]
    cases hleg : Deal.legal (flop.map Card.code) (dealOf flop p ch) with
    | true =>
      obtain ⟨sd, hsd, _⟩ := payload_core ops flop p ch hf hp (hl ch (by simp)) hleg
      have : outOf ops flop p ch = some sd := by simp [outOf, hleg, hsd]
      simp only [this, if_true, List.map_cons, hsd, ih']
    | false =>
      have : outOf ops flop p ch = none := by simp [outOf, hleg]
      simp only [this, Bool.false_eq_true, if_false, ih']

theorem deals_out_eq (ops : WOps W) (flop : List Card) (ranges : List (List (Combo × W))) (hf : WfFlop flop)
    (hr : RWf ranges) (l : List (Nat × Nat)) (hl : ∀ p ∈ l, p.1 < p.2 ∧ p.2 < 49) :
    (l.flatMap fun p => ((product ranges).map (dealOf flop p)).filter (Deal.legal (flop.map Card.code))).map
        (showdownOfDeal ops flop)
      = ((l.flatMap fun q => (product ranges).map (outOf ops flop q)).filterMap id).map
          (fun sd => Res.ok (some sd)) := by
  induction l with
  | nil => rfl
  | cons p l ih =>
    simp only [List.flatMap_cons, List.map_append, List.filterMap_append]
    rw [ih (fun q hq => hl q (List.mem_cons_of_mem _ hq)),
      row_eq ops flop p hf (hl p (by simp)) (product ranges) (fun ch hch => chWf_of_product hr hch)]

theorem outs_length (ops : WOps W) (flop : List Card) (ranges : List (List (Combo × W))) (l : List (Nat × Nat)) :
    (l.flatMap fun q => (product ranges).map (outOf ops flop q)).length = l.length * (product ranges).length :=
  length_flatMap_const l _ _ (fun q _ => by simp)

theorem intoIter_eq (flop : List Card) (ranges : List (List (Combo × W))) (a b : Nat × Nat) (hf : WfFlop flop) :
    (mkEvaluator flop ranges a b).intoIter = .ok (st flop ranges b a (List.replicate ranges.length 0)) := by
  have key : ∀ dk : List Card, dk = deckOf flop →
      (if dk.length = Gen.deckSize then
        (.ok { turnTo := b.1, riverTo := b.2, entries := ranges, deck := dk,
               board := flop.map some ++ [none, none], t := a.1, r := a.2,
               idx := List.replicate ranges.length 0 } : Res (IterState W))
      else .panic) = .ok (st flop ranges b a (List.replicate ranges.length 0)) := by
    intro dk hdk
    subst hdk
    rw [deckOf_length flop hf.len hf.nodup hf.valid]
    simp [st, show Gen.deckSize = 49 from rfl]
  unfold Evaluator.intoIter
  rw [fullDeck_eq]
  exact key _ (deck_filter flop hf.valid)

end EspadaVerif.IterLemmas
