/-
Lemmas/IterPositions: the positions `(turn index, river index)` of `Spec.allPositions` in lexicographic
order, their successor function (the river / turn step of the iterator), and the unfolding of
`Spec.positionsBetween` along that successor.
-/
import EspadaVerif.Spec.Deals

namespace EspadaVerif.C02

/-- `(t, r)` is a position (turn index < river index < 49) or the terminal `(48, 49)` -/
def validPos (p : Nat × Nat) : Bool := (decide (p.1 < p.2) && decide (p.2 < 49)) || p == (48, 49)

end EspadaVerif.C02

namespace EspadaVerif.IterLemmas
open EspadaVerif Spec EspadaVerif.C02

/-- the river / turn step of `advance` -/
def nextPos (p : Nat × Nat) : Nat × Nat :=
  if p.2 < 48 then (p.1, p.2 + 1) else (p.1 + 1, p.1 + 1 + 1)

theorem mem_allPositions (q : Nat × Nat) : q ∈ allPositions ↔ q.1 < q.2 ∧ q.2 < 49 := by
  obtain ⟨t, r⟩ := q
  simp only [allPositions, List.mem_flatMap, List.mem_range, List.mem_map, List.mem_range'_1,
    Prod.mk.injEq]
  constructor
  · rintro ⟨t', ht', r', hr', rfl, rfl⟩
    omega
  · rintro ⟨h1, h2⟩
    exact ⟨t, by omega, r, by omega, rfl, rfl⟩

theorem allPositions_sorted : allPositions.Pairwise (fun p q => posLt p q = true) := by
  unfold allPositions
  rw [List.pairwise_flatMap]
  constructor
  · intro t _
    rw [List.pairwise_map]
    refine List.Pairwise.imp ?_ (List.pairwise_lt_range' (s := t + 1) (n := 48 - t))
    intro x y hxy
    simp [posLt, hxy]
  · refine List.Pairwise.imp ?_ (List.pairwise_lt_range (n := 48))
    intro t1 t2 ht x hx y hy
    simp only [List.mem_map] at hx hy
    obtain ⟨_, _, rfl⟩ := hx
    obtain ⟨_, _, rfl⟩ := hy
    simp [posLt, ht]

theorem allPositions_length : allPositions.length = 1176 := by decide +kernel

theorem posLt_irrefl (p : Nat × Nat) : posLt p p = false := by
  simp [posLt]

theorem posLt_asymm {p q : Nat × Nat} (h : posLt p q = true) : posLt q p = false := by
  simp only [posLt, Bool.or_eq_true, Bool.and_eq_true, decide_eq_true_eq, beq_iff_eq] at h
  simp only [posLt, Bool.or_eq_false_iff, Bool.and_eq_false_iff, decide_eq_false_iff_not]
  have : (q.1 == p.1) = true ↔ q.1 = p.1 := beq_iff_eq
  by_cases hq : q.1 = p.1
  · simp [hq] at h ⊢; omega
  · have : (q.1 == p.1) = false := by simpa using hq
    simp [this]; omega

theorem posLe_iff (p q : Nat × Nat) : posLe p q = true ↔ posLt p q = true ∨ p = q := by
  simp [posLe]

theorem pos_eq_of_not_lt {p q : Nat × Nat} (h1 : posLt p q = false) (h2 : posLt q p = false) : p = q := by
  obtain ⟨a, b⟩ := p
  obtain ⟨c, d⟩ := q
  simp only [posLt, Bool.or_eq_false_iff, Bool.and_eq_false_iff, decide_eq_false_iff_not,
    beq_eq_false_iff_ne] at h1 h2
  simp only [Prod.mk.injEq]
  omega

/-- the stop test of `step` is false strictly before `b` … -/
theorem stop_false {p b : Nat × Nat} (h : posLt p b = true) :
    (decide (p.1 ≥ b.1) && decide (p.2 ≥ b.2)) = false := by
  simp only [posLt, Bool.or_eq_true, Bool.and_eq_true, decide_eq_true_eq, beq_iff_eq] at h
  simp only [Bool.and_eq_false_iff, decide_eq_false_iff_not]
  omega

/-- … and true at `b` -/
theorem stop_true (b : Nat × Nat) : (decide (b.1 ≥ b.1) && decide (b.2 ≥ b.2)) = true := by
  simp

/-- among positions, `nextPos p` is the immediate successor of `p` -/
theorem nextPos_le_iff {p q : Nat × Nat} (hp : p.1 < p.2 ∧ p.2 < 49) (hq : q.1 < q.2 ∧ q.2 < 49) :
    posLe (nextPos p) q = posLt p q := by
  obtain ⟨t, r⟩ := p
  obtain ⟨t', r'⟩ := q
  simp only at hp hq
  rw [Bool.eq_iff_iff]
  unfold nextPos
  split
  · simp only [posLe, posLt, Bool.or_eq_true, Bool.and_eq_true, decide_eq_true_eq, beq_iff_eq,
      Prod.mk.injEq]
    omega
  · simp only [posLe, posLt, Bool.or_eq_true, Bool.and_eq_true, decide_eq_true_eq, beq_iff_eq,
      Prod.mk.injEq]
    omega

theorem positionsBetween_self (b : Nat × Nat) : positionsBetween b b = [] := by
  unfold positionsBetween
  rw [List.filter_eq_nil_iff]
  intro q _
  simp only [Bool.and_eq_true, not_and, Bool.not_eq_true]
  intro h
  rcases (posLe_iff b q).mp h with h | h
  · exact posLt_asymm h
  · subst h; exact posLt_irrefl _

/-- unfolding `positionsBetween` at its first element -/
theorem positionsBetween_step {p b : Nat × Nat} (hp : p.1 < p.2 ∧ p.2 < 49) (hlt : posLt p b = true) :
    positionsBetween p b = p :: positionsBetween (nextPos p) b := by
  have hmem : p ∈ allPositions := (mem_allPositions p).mpr hp
  obtain ⟨pre, post, hsplit⟩ := List.append_of_mem hmem
  have hs := allPositions_sorted
  have hall : ∀ q ∈ allPositions, q.1 < q.2 ∧ q.2 < 49 := fun q hq => (mem_allPositions q).mp hq
  unfold positionsBetween
  rw [hsplit] at hs hall ⊢
  rw [List.pairwise_append] at hs
  obtain ⟨_, hs2, hs3⟩ := hs
  rw [List.pairwise_cons] at hs2
  obtain ⟨hs2, _⟩ := hs2
  have hpre : ∀ q ∈ pre, posLt q p = true := fun q hq => hs3 q hq p (by simp)
  simp only [List.filter_append, List.filter_cons]
  have e1 : pre.filter (fun q => posLe p q && posLt q b) = [] := by
    rw [List.filter_eq_nil_iff]
    intro q hq
    have h1 := hpre q hq
    have h2 := posLt_asymm h1
    have : posLe p q = false := by
      rw [Bool.eq_false_iff]
      intro h
      rcases (posLe_iff p q).mp h with h | h
      · rw [h] at h2; cases h2
      · subst h; rw [posLt_irrefl] at h1; cases h1
    simp [this]
  have e2 : pre.filter (fun q => posLe (nextPos p) q && posLt q b) = [] := by
    rw [List.filter_eq_nil_iff]
    intro q hq
    have h1 := hpre q hq
    have h2 := posLt_asymm h1
    rw [nextPos_le_iff hp (hall q (by simp [hq])), h2]
    simp
  have e3 : (posLe p p && posLt p b) = true := by
    simp [posLe, hlt]
  have e4 : (posLe (nextPos p) p && posLt p b) = false := by
    rw [nextPos_le_iff hp hp, posLt_irrefl]
    simp
  have e5 : post.filter (fun q => posLe p q && posLt q b)
      = post.filter (fun q => posLe (nextPos p) q && posLt q b) := by
    apply List.filter_congr
    intro q hq
    rw [nextPos_le_iff hp (hall q (by simp [hq]))]
    have := hs2 q hq
    simp [posLe, this]
  rw [e1, e2, e3, e4, e5]
  simp


theorem validPos_iff (p : Nat × Nat) : validPos p = true ↔ (p.1 < p.2 ∧ p.2 < 49) ∨ p = (48, 49) := by
  simp [validPos]

/-- a valid position strictly before a valid position is a real position, its successor is valid
and still not beyond the bound -/
theorem nextPos_valid {p b : Nat × Nat} (hp : validPos p = true) (hb : validPos b = true)
    (hlt : posLt p b = true) :
    (p.1 < p.2 ∧ p.2 < 49) ∧ validPos (nextPos p) = true ∧ posLe (nextPos p) b = true := by
  obtain ⟨t, r⟩ := p
  obtain ⟨t', r'⟩ := b
  rw [validPos_iff] at hp hb
  simp only [posLt, Bool.or_eq_true, Bool.and_eq_true, decide_eq_true_eq, beq_iff_eq,
    Prod.mk.injEq] at hp hb hlt
  have hpos : t < r ∧ r < 49 := by omega
  refine ⟨hpos, ?_, ?_⟩
  · rw [validPos_iff]
    unfold nextPos
    split
    · simp only [Prod.mk.injEq]; omega
    · simp only [Prod.mk.injEq]; omega
  · unfold nextPos
    split
    · simp only [posLe, posLt, Bool.or_eq_true, Bool.and_eq_true, decide_eq_true_eq, beq_iff_eq,
        Prod.mk.injEq]
      omega
    · simp only [posLe, posLt, Bool.or_eq_true, Bool.and_eq_true, decide_eq_true_eq, beq_iff_eq,
        Prod.mk.injEq]
      omega

theorem positionsBetween_length_le (a b : Nat × Nat) : (positionsBetween a b).length ≤ 1176 := by
  unfold positionsBetween
  have := List.length_filter_le (fun p => posLe a p && posLt p b) allPositions
  rw [allPositions_length] at this
  exact this

theorem mem_positionsBetween {a b q : Nat × Nat} (h : q ∈ positionsBetween a b) : q.1 < q.2 ∧ q.2 < 49 := by
  unfold positionsBetween at h
  exact (mem_allPositions q).mp (List.mem_filter.mp h).1

end EspadaVerif.IterLemmas
