/-
Lemmas/EvalModel: facts about the executable model of the evaluator (Model/Eval.lean) needed by C01:
the flush scan finds "the" suit with five cards whatever the order, the two hashes only depend on
rank multisets, hence `eval7` is invariant under permutation of its (at most nine) cards.
-/
import EspadaVerif.Kernel.Checkers
import EspadaVerif.Props.C13

namespace EspadaVerif.Lemmas
open EspadaVerif Spec Kernel

private theorem suitU8_lt (s : Nat) (h : s < 4) : suitU8 s = s := C13.suit_numbering.2.1 s h
private theorem rankU8_lt (r : Nat) (h : r < 13) : rankU8 r = r := C13.rank_numbering.2.1 r h
private theorem thr : Gen.flushThreshold = 5 := by decide

private theorem getD_set_succ (counts : List Nat) (i s : Nat) (hi : i < counts.length) :
    (counts.set i (counts.getD i 0 + 1)).getD s 0 = counts.getD s 0 + if i = s then 1 else 0 := by
  simp only [List.getD_eq_getElem?_getD, List.getElem?_set]
  split
  · subst_vars; simp [hi]
  · simp

private theorem ffs_aux (rest : List Card) (hv : ∀ c ∈ rest, c.valid = true) :
    ∀ counts : List Nat, counts.length = 4 → (∀ i, counts.getD i 0 < 5) →
    (∃ s, s < 4 ∧ 5 ≤ counts.getD s 0 + rest.countP (fun x => x.suit == s)
        ∧ ffsLoop counts rest = .ok (some s))
    ∨ ((∀ s, counts.getD s 0 + rest.countP (fun x => x.suit == s) < 5)
        ∧ ffsLoop counts rest = .ok none) := by
  induction rest with
  | nil =>
    intro counts hl hc
    right
    exact ⟨fun s => by simpa using hc s, rfl⟩
  | cons x rest ih =>
    intro counts hl hc
    have hx := hv x (by simp)
    simp only [Card.valid, Bool.and_eq_true, decide_eq_true_eq] at hx
    have ih := ih (fun c hc => hv c (List.mem_cons_of_mem _ hc))
    have hget : counts[x.suit]? = some (counts.getD x.suit 0) := by
      simp [List.getD_eq_getElem?_getD, List.getElem?_eq_getElem (show x.suit < counts.length by omega)]
    simp only [ffsLoop, suitU8_lt _ hx.2, thr, hget, List.countP_cons]
    split
    · left
      refine ⟨_, hx.2, ?_, rfl⟩
      simp only [beq_self_eq_true, if_true]
      omega
    · rename_i hlt
      have hstep := fun s => getD_set_succ counts x.suit s (by omega)
      have hc' : ∀ i, (counts.set x.suit (counts.getD x.suit 0 + 1)).getD i 0 < 5 := by
        intro i
        rw [hstep]
        have := hc i
        split
        · subst_vars; omega
        · omega
      rcases ih _ (by simpa using hl) hc' with ⟨s, hs, h5, he⟩ | ⟨hall, he⟩
      · left
        refine ⟨s, hs, ?_, he⟩
        rw [hstep] at h5
        simp only [beq_iff_eq]
        omega
      · right
        refine ⟨fun s => ?_, he⟩
        have := hall s
        rw [hstep] at this
        simp only [beq_iff_eq]
        omega

set_option linter.unusedVariables false in
theorem findFlushSuit_spec (cs : List Card) (hv : ∀ c ∈ cs, c.valid = true) (hlen : cs.length ≤ 9) :
    (∃ s, s < 4 ∧ 5 ≤ cs.countP (fun c => c.suit == s) ∧ findFlushSuit cs = .ok (some s))
    ∨ ((∀ s, cs.countP (fun c => c.suit == s) < 5) ∧ findFlushSuit cs = .ok none) := by
  have h := ffs_aux cs hv [0, 0, 0, 0] rfl (by
    intro i
    match i with
    | 0 | 1 | 2 | 3 | i + 4 => simp)
  have h0 : ∀ s, [0, 0, 0, 0].getD s 0 = 0 := by
    intro i
    match i with
    | 0 | 1 | 2 | 3 | i + 4 => simp
  simpa only [h0, Nat.zero_add, findFlushSuit] using h

private theorem hashFlush_aux (cs : List Card) (s : Nat) : ∀ acc : Nat,
    cs.foldl (fun h c => if c.suit = s then h + Gen.flushWeightTbl.getD c.rank 0 else h) acc
      = acc + flushHash ((cs.filter (fun c => c.suit == s)).map (·.rank)) := by
  induction cs with
  | nil => intro acc; simp [flushHash]
  | cons x cs ih =>
    intro acc
    rw [List.foldl_cons, ih]
    by_cases hx : x.suit = s
    · simp [hx, flushHash]
      omega
    · simp [hx, flushHash]

theorem hashFlush_eq (cs : List Card) (s : Nat) :
    hashFlush cs s = flushHash ((cs.filter (fun c => c.suit == s)).map (·.rank)) := by
  simpa [hashFlush] using hashFlush_aux cs s 0

theorem flushHash_perm {rs₁ rs₂ : List Nat} (h : rs₁.Perm rs₂) : flushHash rs₁ = flushHash rs₂ :=
  (h.map _).sum_nat

private theorem rankCounts_eq (rs : List Nat) (hv : ∀ r ∈ rs, r < 13) :
    ∀ counts : List Nat, counts.length = 13 →
    rankCounts counts rs = .ok ((List.range 13).map (fun i => counts.getD i 0 + rs.count i)) := by
  induction rs with
  | nil =>
    intro counts hl
    simp only [rankCounts, List.count_nil, Nat.add_zero]
    congr 1
    apply List.ext_getElem
    · simp [hl]
    · intro i h1 h2
      simp [List.getD_eq_getElem?_getD, h1]
  | cons r rs ih =>
    intro counts hl
    have hr : r < 13 := hv r (by simp)
    have ih := ih (fun c hc => hv c (List.mem_cons_of_mem _ hc))
    have hget : counts[r]? = some (counts.getD r 0) := by
      simp [List.getD_eq_getElem?_getD, List.getElem?_eq_getElem (show r < counts.length by omega)]
    simp only [rankCounts, rankU8_lt _ hr, hget]
    rw [ih _ (by simpa using hl)]
    congr 1
    apply List.map_congr_left
    intro i _
    rw [getD_set_succ counts r i (by omega), List.count_cons]
    simp only [beq_iff_eq]
    omega

theorem hashRanks_perm {rs₁ rs₂ : List Nat} (h : rs₁.Perm rs₂) (hv : ∀ r ∈ rs₁, r < 13) :
    hashRanks rs₁ = hashRanks rs₂ := by
  have hv₂ : ∀ r ∈ rs₂, r < 13 := fun r hr => hv r (h.mem_iff.mpr hr)
  simp only [hashRanks, rankCounts_eq rs₁ hv _ (List.length_replicate ..),
    rankCounts_eq rs₂ hv₂ _ (List.length_replicate ..), h.length_eq, h.count_eq]

private theorem countP_suit_add_le (l : List Card) (s t : Nat) (hne : s ≠ t) :
    l.countP (fun c => c.suit == s) + l.countP (fun c => c.suit == t) ≤ l.length := by
  induction l with
  | nil => simp
  | cons x l ih =>
    simp only [List.countP_cons, List.length_cons, beq_iff_eq]
    split <;> split <;> omega

/-- the evaluation does not depend on the order in which the (at most nine) cards are presented -/
theorem eval7_perm {cs₁ cs₂ : List Card} (h : cs₁.Perm cs₂) (hv : ∀ c ∈ cs₁, c.valid = true)
    (hlen : cs₁.length ≤ 9) : eval7 cs₁ = eval7 cs₂ := by
  have hv₂ : ∀ c ∈ cs₂, c.valid = true := fun c hc => hv c (h.mem_iff.mpr hc)
  have hlen₂ : cs₂.length ≤ 9 := h.length_eq ▸ hlen
  have hcnt : ∀ s, cs₂.countP (fun c => c.suit == s) = cs₁.countP (fun c => c.suit == s) :=
    fun s => (h.countP_eq _).symm
  rcases findFlushSuit_spec cs₁ hv hlen with ⟨s, hs, h5, he⟩ | ⟨hall, he⟩
  · rcases findFlushSuit_spec cs₂ hv₂ hlen₂ with ⟨t, ht, h5', he'⟩ | ⟨hall', he'⟩
    · rw [hcnt] at h5'
      have hst : s = t := by
        by_cases hst : s = t
        · exact hst
        · have := countP_suit_add_le cs₁ s t hst
          omega
      subst hst
      simp only [eval7, he, he', hashFlush_eq]
      rw [flushHash_perm ((h.filter _).map _)]
    · have := hall' s
      rw [hcnt] at this
      omega
  · rcases findFlushSuit_spec cs₂ hv₂ hlen₂ with ⟨t, ht, h5', he'⟩ | ⟨hall', he'⟩
    · have := hall t
      rw [hcnt] at h5'
      omega
    · have hr : ∀ r ∈ cs₁.map (·.rank), r < 13 := by
        intro r hr
        obtain ⟨c, hc, rfl⟩ := List.mem_map.mp hr
        have := hv c hc
        simp only [Card.valid, Bool.and_eq_true, decide_eq_true_eq] at this
        exact this.1
      simp only [eval7, he, he', hashRainbow]
      rw [hashRanks_perm (h.map _) hr]

theorem count_rank_le_four (cs : List Card) (hnd : cs.Nodup) (hv : ∀ c ∈ cs, c.valid = true) (r : Nat) :
    (cs.map (·.rank)).count r ≤ 4 := by
  have hcount : (cs.map (·.rank)).count r = ((cs.filter (fun c => c.rank == r)).map (·.suit)).length := by
    rw [List.count_eq_countP, List.countP_map, List.countP_eq_length_filter, List.length_map]
    rfl
  have hnd' : ((cs.filter (fun c => c.rank == r)).map (·.suit)).Nodup := by
    rw [List.nodup_iff_pairwise_ne, List.pairwise_map, List.pairwise_filter]
    refine hnd.imp ?_
    intro a b hab ha hb hs
    apply hab
    obtain ⟨ra, sa⟩ := a
    obtain ⟨rb, sb⟩ := b
    simp only [beq_iff_eq] at ha hb hs
    subst ha hb hs
    rfl
  have hsub : ((cs.filter (fun c => c.rank == r)).map (·.suit)) ⊆ List.range 4 := by
    intro s hs
    obtain ⟨c, hc, rfl⟩ := List.mem_map.mp hs
    have := hv c (List.mem_filter.mp hc).1
    simp only [Card.valid, Bool.and_eq_true, decide_eq_true_eq] at this
    exact List.mem_range.mpr this.2
  have := hnd'.length_le_of_subset hsub
  rw [hcount]
  simpa using this

end EspadaVerif.Lemmas
