/-
Lemmas/EvalModel: facts about the executable model of the evaluator (Model/Eval.lean) needed by C01:
the flush scan finds "the" suit with five cards whatever the order, the two hashes only depend on
rank multisets, hence `eval7` is invariant under permutation of its (at most nine) cards.
-/
import EspadaVerif.Kernel.Checkers
import EspadaVerif.Props.C13

namespace EspadaVerif.Lemmas
open EspadaVerif Spec Kernel

theorem findFlushSuit_spec (cs : List Card) (hv : ∀ c ∈ cs, c.valid = true) (hlen : cs.length ≤ 9) :
    (∃ s, s < 4 ∧ 5 ≤ cs.countP (fun c => c.suit == s) ∧ findFlushSuit cs = .ok (some s))
    ∨ ((∀ s, cs.countP (fun c => c.suit == s) < 5) ∧ findFlushSuit cs = .ok none) := by
  sorry

theorem hashFlush_eq (cs : List Card) (s : Nat) :
    hashFlush cs s = flushHash ((cs.filter (fun c => c.suit == s)).map (·.rank)) := by
  sorry

theorem flushHash_perm {rs₁ rs₂ : List Nat} (h : rs₁.Perm rs₂) : flushHash rs₁ = flushHash rs₂ := by
  sorry

theorem hashRanks_perm {rs₁ rs₂ : List Nat} (h : rs₁.Perm rs₂) (hv : ∀ r ∈ rs₁, r < 13) :
    hashRanks rs₁ = hashRanks rs₂ := by
  sorry

/-- the evaluation does not depend on the order in which the (at most nine) cards are presented -/
theorem eval7_perm {cs₁ cs₂ : List Card} (h : cs₁.Perm cs₂) (hv : ∀ c ∈ cs₁, c.valid = true)
    (hlen : cs₁.length ≤ 9) : eval7 cs₁ = eval7 cs₂ := by
  sorry

theorem count_rank_le_four (cs : List Card) (hnd : cs.Nodup) (hv : ∀ c ∈ cs, c.valid = true) (r : Nat) :
    (cs.map (·.rank)).count r ≤ 4 := by
  sorry

end EspadaVerif.Lemmas
