/-
Lemmas/IterCorollaries: small facts used by the corollaries C04 and C08 of the refinement theorem:
positions of consecutive scopes concatenate, a drain with a smaller limit also returns normally,
the length of a `flatMap` with bounded pieces.
-/
import EspadaVerif.Props.C02

namespace EspadaVerif.IterLemmas
open EspadaVerif Spec EspadaVerif.C02

variable {W : Type}

/-! ### the order on positions -/

theorem posLt_of_lt_of_le {a b c : Nat × Nat} (h1 : posLt a b = true) (h2 : posLe b c = true) :
    posLt a c = true := by
  obtain ⟨a1, a2⟩ := a
  obtain ⟨b1, b2⟩ := b
  obtain ⟨c1, c2⟩ := c
  simp only [posLe, posLt, Bool.or_eq_true, Bool.and_eq_true, decide_eq_true_eq, beq_iff_eq,
    Prod.mk.injEq] at h1 h2 ⊢
  omega

theorem posLe_trans {a b c : Nat × Nat} (h1 : posLe a b = true) (h2 : posLe b c = true) :
    posLe a c = true := by
  rcases (posLe_iff a b).mp h1 with h | rfl
  · exact (posLe_iff a c).mpr (Or.inl (posLt_of_lt_of_le h h2))
  · exact h2

theorem posLe_refl (a : Nat × Nat) : posLe a a = true := by
  simp [posLe]

/-- the positions of consecutive scopes concatenate -/
theorem positionsBetween_append {b c : Nat × Nat} (hb : validPos b = true) (hbc : posLe b c = true) :
    ∀ (l : List (Nat × Nat)) (a : Nat × Nat), positionsBetween a b = l → validPos a = true →
      posLe a b = true → positionsBetween a b ++ positionsBetween b c = positionsBetween a c := by
  intro l
  induction l with
  | nil =>
    intro a hl hav hle
    rcases (posLe_iff a b).mp hle with hlt | rfl
    · obtain ⟨hp, _, _⟩ := nextPos_valid hav hb hlt
      rw [positionsBetween_step hp hlt] at hl
      cases hl
    · rw [positionsBetween_self]
      rfl
  | cons q l' ih =>
    intro a hl hav hle
    rcases (posLe_iff a b).mp hle with hlt | rfl
    · obtain ⟨hp, hnv, hnle⟩ := nextPos_valid hav hb hlt
      have hstep := positionsBetween_step hp hlt
      rw [hstep] at hl
      simp only [List.cons.injEq] at hl
      obtain ⟨_, hl'⟩ := hl
      rw [hstep, positionsBetween_step hp (posLt_of_lt_of_le hlt hbc), List.cons_append,
        ih (nextPos a) hl' hnv hnle]
    · rw [positionsBetween_self] at hl
      cases hl

/-! ### draining with a smaller limit -/

theorem drainFuel_ok_pred (ops : WOps W) :
    ∀ (n : Nat) (s : IterState W) (acc : List (Showdown W)) (r : List (Showdown W) × IterState W),
      drainFuel ops (n + 1) s acc = .ok r → ∃ r', drainFuel ops n s acc = .ok r' := by
  intro n
  induction n with
  | zero =>
    intro s acc r _
    exact ⟨_, rfl⟩
  | succ n ih =>
    intro s acc r h
    rw [drainFuel] at h
    rw [drainFuel]
    split at h
    · next sd s' heq =>
      exact ih s' (sd :: acc) r h
    · next s' heq =>
      exact ⟨_, rfl⟩
    · cases h
    · cases h

theorem drainFuel_ok_le (ops : WOps W) (s : IterState W) (acc : List (Showdown W)) :
    ∀ (k n : Nat) (r : List (Showdown W) × IterState W),
      drainFuel ops (n + k) s acc = .ok r → ∃ r', drainFuel ops n s acc = .ok r' := by
  intro k
  induction k with
  | zero =>
    intro n r h
    exact ⟨r, h⟩
  | succ k ih =>
    intro n r h
    obtain ⟨r', h'⟩ := drainFuel_ok_pred ops (n + k) s acc r h
    exact ih n r' h'

/-! ### lengths -/

theorem length_flatMap_le {α β : Type} (l : List α) (f : α → List β) (m : Nat)
    (h : ∀ x ∈ l, (f x).length ≤ m) : (l.flatMap f).length ≤ l.length * m := by
  induction l with
  | nil => simp
  | cons x l ih =>
    have h1 := h x (by simp)
    have h2 := ih (fun y hy => h y (List.mem_cons_of_mem _ hy))
    simp only [List.flatMap_cons, List.length_append, List.length_cons, Nat.succ_mul]
    omega

end EspadaVerif.IterLemmas
