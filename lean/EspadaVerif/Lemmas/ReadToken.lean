/-
Lemmas/ReadToken: the oracle's token reader `readToken` (Spec/Notation) is sound and complete with respect to
`WfToken.wf` / `WfToken.text`, and therefore `text` is injective on well-formed tokens.
-/
import EspadaVerif.Spec.Notation

set_option Elab.async false

namespace EspadaVerif.Spec

/-! ### completeness, one bounded family per constructor (checked by kernel evaluation) -/

private theorem complete_pocket :
    ∀ r, r < 13 → readToken (WfToken.pocket r).text = some (WfToken.pocket r) := by decide +kernel

private theorem complete_pocketPlus :
    ∀ r, r < 13 → readToken (WfToken.pocketPlus r).text = some (WfToken.pocketPlus r) := by decide +kernel

private theorem complete_pocketSpan :
    ∀ lo, lo < 13 → ∀ hi, hi < 13 → hi ≤ lo →
      readToken (WfToken.pocketSpan hi lo).text = some (WfToken.pocketSpan hi lo) := by decide +kernel

private theorem complete_pair :
    ∀ x, x < 13 → ∀ y, y < 13 → x ≠ y →
      readToken (WfToken.pair x y true).text = some (WfToken.pair x y true) ∧
      readToken (WfToken.pair x y false).text = some (WfToken.pair x y false) := by decide +kernel

private theorem complete_pairPlus :
    ∀ y, y < 13 → ∀ x, x < 13 → x < y →
      readToken (WfToken.pairPlus x y true).text = some (WfToken.pairPlus x y true) ∧
      readToken (WfToken.pairPlus x y false).text = some (WfToken.pairPlus x y false) := by decide +kernel

/-- the `pairSpan` instances for one `(y, z)` (a separate definition keeps instance synthesis shallow) -/
private def PairSpanRow (y z : Nat) : Prop :=
  ∀ x, x < 13 → (x < y ∧ y < z) →
    readToken (WfToken.pairSpan x y z true).text = some (WfToken.pairSpan x y z true) ∧
    readToken (WfToken.pairSpan x y z false).text = some (WfToken.pairSpan x y z false)

private instance (y z : Nat) : Decidable (PairSpanRow y z) := by
  unfold PairSpanRow; infer_instance

private theorem complete_pairSpan : ∀ z, z < 13 → ∀ y, y < 13 → PairSpanRow y z := by decide +kernel

private theorem complete_cards :
    ∀ c₁, c₁ < 52 → ∀ c₂, c₂ < 52 → c₁ ≠ c₂ →
      readToken (WfToken.cards c₁ c₂).text = some (WfToken.cards c₁ c₂) := by decide +kernel

/-- the reader recognises every well-formed token from its own text -/
theorem readToken_complete (w : WfToken) (h : w.wf = true) : readToken w.text = some w := by
  cases w with
  | pocket r =>
    simp [WfToken.wf] at h
    exact complete_pocket r h
  | pocketPlus r =>
    simp [WfToken.wf] at h
    exact complete_pocketPlus r h
  | pocketSpan hi lo =>
    simp [WfToken.wf] at h
    exact complete_pocketSpan lo h.2 hi (by omega) h.1
  | pair x y s =>
    simp [WfToken.wf] at h
    have := complete_pair x h.1.1 y h.1.2 h.2
    cases s
    · exact this.2
    · exact this.1
  | pairPlus x y s =>
    simp [WfToken.wf] at h
    have := complete_pairPlus y h.2 x (by omega) h.1
    cases s
    · exact this.2
    · exact this.1
  | pairSpan x y z s =>
    simp [WfToken.wf] at h
    have := complete_pairSpan z h.2 y (by omega) x (by omega) h.1
    cases s
    · exact this.2
    · exact this.1
  | cards c₁ c₂ =>
    simp [WfToken.wf] at h
    exact complete_cards c₁ h.1.1 c₂ h.1.2 h.2

/-- whatever the reader returns is well formed and has exactly the text that was read -/
theorem readToken_sound (t : List Nat) (w : WfToken) (h : readToken t = some w) :
    w.wf = true ∧ w.text = t := by
  unfold readToken at h
  simp only [] at h
  split at h
  · rename_i w' _
    split at h
    · rename_i hc
      simp only [Option.some.injEq] at h
      subst h
      simpa using hc
    · exact absurd h (by simp)
  · exact absurd h (by simp)

/-- consequently the text determines the token: `text` is injective on well-formed tokens -/
theorem text_injective (w₁ w₂ : WfToken) (h₁ : w₁.wf = true) (h₂ : w₂.wf = true)
    (h : w₁.text = w₂.text) : w₁ = w₂ := by
  have e₁ := readToken_complete w₁ h₁
  have e₂ := readToken_complete w₂ h₂
  rw [h, e₂] at e₁
  exact (Option.some.inj e₁).symm

end EspadaVerif.Spec
