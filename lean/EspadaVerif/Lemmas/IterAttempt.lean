/-
Lemmas/IterAttempt: one raw position of the iterator.  `pickLoop` reads the chosen entries and its flag
says "turn, river and hole cards pairwise distinct"; `attempt` is the showdown of the specification's
deal when that deal is legal and `None` otherwise.
-/
import EspadaVerif.Lemmas.IterDefs
import EspadaVerif.Lemmas.IterDeck
import EspadaVerif.Lemmas.IterOdometer

namespace EspadaVerif.IterLemmas
open EspadaVerif Spec EspadaVerif.C02

variable {W : Type}

/-- the hole cards of a choice, player by player -/
def holes (ch : List (Combo × W)) : List Card := ch.flatMap fun e => [e.1.fst, e.1.snd]

/-- every chosen entry is a combo of two valid cards in canonical order -/
def ChWf (ch : List (Combo × W)) : Prop :=
  ∀ e ∈ ch, e.1.fst.valid = true ∧ e.1.snd.valid = true ∧ Card.lt e.1.fst e.1.snd = true

/-- an entry as the specification sees it -/
def toSpec (e : Combo × W) : Nat × Nat × W := (e.1.fst.code, e.1.snd.code, e.2)

theorem specEntries_eq (ranges : List (List (Combo × W))) : specEntries ranges = ranges.map (List.map toSpec) := rfl

/-- the turn / river card at a position -/
def cardAt (flop : List Card) (i : Nat) : Card := Card.ofCode ((deck49 (flop.map Card.code)).getD i 0)

/-- the specification's deal at a position for a choice of entries -/
def dealOf (flop : List Card) (p : Nat × Nat) (ch : List (Combo × W)) : Deal W :=
  { turn := (deck49 (flop.map Card.code)).getD p.1 0, river := (deck49 (flop.map Card.code)).getD p.2 0,
    choice := ch.map toSpec }

theorem mem_holes (ch : List (Combo × W)) (c : Card) : c ∈ holes ch ↔ ∃ e ∈ ch, c = e.1.fst ∨ c = e.1.snd := by
  simp [holes]

theorem holes_valid (ch : List (Combo × W)) (h : ChWf ch) : ∀ c ∈ holes ch, c.valid = true := by
  intro c hc
  obtain ⟨e, he, h1 | h1⟩ := (mem_holes ch c).mp hc
  · rw [h1]; exact (h e he).1
  · rw [h1]; exact (h e he).2.1

/-! ### the used-card set -/

theorem usedInsert_mem (u : List Card) (c x : Card) : x ∈ (usedInsert u c).1 ↔ x = c ∨ x ∈ u := by
  unfold usedInsert
  split
  · rename_i h
    simp only [List.contains_eq_mem, decide_eq_true_eq] at h
    constructor
    · exact Or.inr
    · rintro (rfl | h') <;> assumption
  · simp

theorem usedInsert_new (u : List Card) (c : Card) : (usedInsert u c).2 = true ↔ c ∉ u := by
  unfold usedInsert
  split
  · rename_i h
    simp only [List.contains_eq_mem, decide_eq_true_eq] at h
    simp [h]
  · rename_i h
    simp only [List.contains_eq_mem, decide_eq_true_eq] at h
    simp [h]

theorem pickLoop_cons (ops : WOps W) (es : List (Combo × W)) (rest : List (List (Combo × W))) (i : Nat)
    (idxs : List Nat) (used : List Card) (ok : Bool) (pairs : List Combo) (prob : W) (cp : Combo) (w : W)
    (hx : es[i]? = some (cp, w)) :
    pickLoop ops (es :: rest) (i :: idxs) used ok pairs prob =
      pickLoop ops rest idxs (usedInsert (usedInsert used cp.fst).1 cp.snd).1
        (ok && (usedInsert used cp.fst).2 && (usedInsert (usedInsert used cp.fst).1 cp.snd).2)
        (cp :: pairs) (ops.mul prob w) := by
  simp only [pickLoop, hx]

/-- `pickLoop` on counters in range: no panic, the combos in player order, the weights multiplied left
to right, and the flag says that all inserts were new -/
theorem pickLoop_spec (ops : WOps W) (entries : List (List (Combo × W))) :
    ∀ (v : List Nat) (used : List Card) (ok : Bool) (pairs : List Combo) (prob : W) (ch : List (Combo × W)),
      pick entries v = some ch →
      ∃ flag, pickLoop ops entries v used ok pairs prob
          = .ok (flag, pairs.reverse ++ ch.map (·.1), ch.foldl (fun p c => ops.mul p c.2) prob)
        ∧ (flag = true ↔ ok = true ∧ (holes ch).Nodup ∧ ∀ c ∈ holes ch, c ∉ used) := by
  induction entries with
  | nil =>
    intro v used ok pairs prob ch h
    simp only [pick, Option.some.injEq] at h
    subst h
    exact ⟨ok, by simp [pickLoop], by simp [holes]⟩
  | cons es rest ih =>
    intro v used ok pairs prob ch h
    cases v with
    | nil => simp [pick] at h
    | cons i v =>
      simp only [pick] at h
      split at h
      · rename_i x xs hx hxs
        simp only [Option.some.injEq] at h
        subst h
        obtain ⟨cp, w⟩ := x
        obtain ⟨flag, hrun, hflag⟩ := ih v (usedInsert (usedInsert used cp.fst).1 cp.snd).1
          (ok && (usedInsert used cp.fst).2 && (usedInsert (usedInsert used cp.fst).1 cp.snd).2)
          (cp :: pairs) (ops.mul prob w) xs hxs
        refine ⟨flag, ?_, ?_⟩
        · rw [pickLoop_cons ops es rest i v used ok pairs prob cp w hx, hrun]
          simp
        · rw [hflag]
          simp only [Bool.and_eq_true, usedInsert_new, usedInsert_mem, holes, List.flatMap_cons,
            List.cons_append, List.nil_append, List.nodup_cons, List.mem_cons, not_or]
          constructor
          · rintro ⟨⟨⟨h1, h2⟩, h3, h4⟩, h5, h6⟩
            refine ⟨h1, ⟨⟨fun e => h3 e.symm, fun hm => (h6 _ hm).2.1 rfl⟩, fun hm => (h6 _ hm).1 rfl, h5⟩, ?_⟩
            intro c hc
            rcases hc with rfl | rfl | hc
            · exact h2
            · exact h4
            · exact (h6 c hc).2.2
          · rintro ⟨h1, ⟨⟨h2, h3⟩, h4, h5⟩, h6⟩
            refine ⟨⟨⟨h1, h6 _ (Or.inl rfl)⟩, fun e => h2 e.symm, h6 _ (Or.inr (Or.inl rfl))⟩, h5, ?_⟩
            intro c hc
            refine ⟨?_, ?_, h6 c (Or.inr (Or.inr hc))⟩
            · rintro rfl; exact h4 hc
            · rintro rfl; exact h3 hc
      · cases h

/-! ### the state of the iterator at a raw position -/

/-- the iterator of `mkEvaluator flop ranges a b` at position `p` with counters `v` -/
def st (flop : List Card) (ranges : List (List (Combo × W))) (b p : Nat × Nat) (v : List Nat) : IterState W :=
  { turnTo := b.1, riverTo := b.2, entries := ranges, deck := deckOf flop,
    board := flop.map some ++ [none, none], t := p.1, r := p.2, idx := v }

/-- hypotheses on the flop alone -/
structure WfFlop (flop : List Card) : Prop where
  len : flop.length = 3
  nodup : flop.Nodup
  valid : ∀ c ∈ flop, c.valid = true

/-- `attempt` at a raw position, by the flag -/
theorem attempt_eq (ops : WOps W) (flop : List Card) (ranges : List (List (Combo × W))) (b p : Nat × Nat)
    (v : List Nat) (ch : List (Combo × W)) (hf : WfFlop flop) (hp : p.1 < p.2 ∧ p.2 < 49)
    (hpick : pick ranges v = some ch) :
    attempt ops (st flop ranges b p v) =
      if (cardAt flop p.1 :: cardAt flop p.2 :: holes ch).Nodup then
        showdownNew (ch.map (·.1)) (flop ++ [cardAt flop p.1, cardAt flop p.2])
          (ch.foldl (fun p c => ops.mul p c.2) ops.one)
      else .ok none := by
  obtain ⟨h1, h2, hne, _, _, _, _⟩ := deck_at flop hf.len hf.nodup hf.valid p.1 p.2 hp.1 hp.2
  obtain ⟨flag, hrun, hflag⟩ := pickLoop_spec ops ranges v
    (usedInsert (usedInsert [] (cardAt flop p.1)).1 (cardAt flop p.2)).1 true [] ops.one ch hpick
  have hl := hf.len
  match flop, hl with
  | [f0, f1, f2], _ =>
    simp only [attempt, st]
    rw [h1, h2]
    simp only []
    change (match pickLoop ops ranges v (usedInsert (usedInsert [] (cardAt [f0, f1, f2] p.1)).1
      (cardAt [f0, f1, f2] p.2)).1 true [] ops.one with
      | .ok (materialized, pairs, prob) => _
      | _ => _) = _
    rw [hrun]
    simp only [List.reverse_nil, List.nil_append]
    have hiff : flag = true ↔ (cardAt [f0, f1, f2] p.1 :: cardAt [f0, f1, f2] p.2 :: holes ch).Nodup := by
      rw [hflag]
      simp only [usedInsert_mem, List.not_mem_nil, or_false, not_or, true_and, List.nodup_cons,
        List.mem_cons]
      constructor
      · rintro ⟨h3, h4⟩
        exact ⟨⟨hne, fun hm => (h4 _ hm).2 rfl⟩, fun hm => (h4 _ hm).1 rfl, h3⟩
      · rintro ⟨⟨_, h4⟩, h5, h6⟩
        refine ⟨h6, fun c hc => ⟨?_, ?_⟩⟩
        · rintro rfl; exact h5 hc
        · rintro rfl; exact h4 hc
    by_cases hfl : flag = true
    · rw [if_pos hfl, if_pos (hiff.mp hfl)]
      simp only [boardCard, List.map_cons, List.map_nil, List.cons_append, List.nil_append,
        List.getElem?_cons_zero, List.getElem?_cons_succ]
      rfl
    · rw [if_neg hfl, if_neg (fun h => hfl (hiff.mpr h))]

/-! ### legality of the specification's deal -/

theorem dealOf_codes (flop : List Card) (p : Nat × Nat) (ch : List (Combo × W)) :
    flop.map Card.code ++ [(dealOf flop p ch).turn, (dealOf flop p ch).river]
        ++ (dealOf flop p ch).choice.flatMap (fun c => [c.1, c.2.1])
      = (flop ++ [cardAt flop p.1, cardAt flop p.2] ++ holes ch).map Card.code := by
  simp only [dealOf, cardAt, holes, List.map_append, List.map_cons, List.map_nil, code_ofCode,
    List.flatMap_map, List.map_flatMap, toSpec]

theorem legal_iff_nodup (flop : List Card) (p : Nat × Nat) (ch : List (Combo × W)) (hf : WfFlop flop)
    (hp : p.1 < p.2 ∧ p.2 < 49) (hch : ChWf ch) :
    Deal.legal (flop.map Card.code) (dealOf flop p ch) = true
      ↔ (flop ++ [cardAt flop p.1, cardAt flop p.2] ++ holes ch).Nodup := by
  obtain ⟨_, _, _, hv1, hv2, _, _⟩ := deck_at flop hf.len hf.nodup hf.valid p.1 p.2 hp.1 hp.2
  unfold Deal.legal
  rw [decide_eq_true_eq, dealOf_codes, nodup_map_code]
  intro c hc
  simp only [List.mem_append, List.mem_cons, List.not_mem_nil, or_false] at hc
  rcases hc with (hc | rfl | rfl) | hc
  · exact hf.valid c hc
  · exact hv1
  · exact hv2
  · exact holes_valid ch hch c hc

/-- all cards distinct ↔ the iterator's flag holds and no player collides with the five-card board -/
theorem nodup_split (flop : List Card) (p : Nat × Nat) (ch : List (Combo × W)) (hf : WfFlop flop)
    (hp : p.1 < p.2 ∧ p.2 < 49) :
    (flop ++ [cardAt flop p.1, cardAt flop p.2] ++ holes ch).Nodup
      ↔ (cardAt flop p.1 :: cardAt flop p.2 :: holes ch).Nodup
        ∧ ∀ pc ∈ ch.map (·.1), C03.collides (flop ++ [cardAt flop p.1, cardAt flop p.2]) pc = false := by
  obtain ⟨_, _, hne, _, _, hn1, hn2⟩ := deck_at flop hf.len hf.nodup hf.valid p.1 p.2 hp.1 hp.2
  change cardAt flop p.1 ≠ cardAt flop p.2 at hne
  change cardAt flop p.1 ∉ flop at hn1
  change cardAt flop p.2 ∉ flop at hn2
  generalize cardAt flop p.1 = turn at *
  generalize cardAt flop p.2 = river at *
  have hfn := hf.nodup
  rw [List.append_assoc, List.nodup_append]
  simp only [List.cons_append, List.nil_append, C03.collides, Bool.or_eq_false_iff,
    List.contains_eq_mem, decide_eq_false_iff_not, List.mem_map, forall_exists_index, and_imp,
    forall_apply_eq_imp_iff₂, List.mem_append, List.mem_cons, List.not_mem_nil, or_false, not_or]
  constructor
  · rintro ⟨_, h2, h3⟩
    refine ⟨h2, fun e he => ?_⟩
    have m1 : e.1.fst ∈ holes ch := (mem_holes ch _).mpr ⟨e, he, Or.inl rfl⟩
    have m2 : e.1.snd ∈ holes ch := (mem_holes ch _).mpr ⟨e, he, Or.inr rfl⟩
    simp only [List.nodup_cons, List.mem_cons, not_or] at h2
    refine ⟨⟨fun hm => h3 _ hm _ (Or.inr (Or.inr m1)) rfl, ?_, ?_⟩,
      ⟨fun hm => h3 _ hm _ (Or.inr (Or.inr m2)) rfl, ?_, ?_⟩⟩
    · rintro h; exact h2.1.2 (h ▸ m1)
    · rintro h; exact h2.2.1 (h ▸ m1)
    · rintro h; exact h2.1.2 (h ▸ m2)
    · rintro h; exact h2.2.1 (h ▸ m2)
  · rintro ⟨h2, h3⟩
    refine ⟨hfn, h2, ?_⟩
    intro a ha c hc e
    subst e
    rcases hc with rfl | rfl | hc
    · exact hn1 ha
    · exact hn2 ha
    · obtain ⟨e, he, h1 | h1⟩ := (mem_holes ch a).mp hc
      · exact (h3 e he).1.1 (h1 ▸ ha)
      · exact (h3 e he).2.1 (h1 ▸ ha)

theorem wfTable (flop : List Card) (p : Nat × Nat) (ch : List (Combo × W)) (hf : WfFlop flop)
    (hp : p.1 < p.2 ∧ p.2 < 49) (hch : ChWf ch) :
    C03.WfTable (flop ++ [cardAt flop p.1, cardAt flop p.2]) (ch.map (·.1)) := by
  obtain ⟨_, _, hne, hv1, hv2, hn1, hn2⟩ := deck_at flop hf.len hf.nodup hf.valid p.1 p.2 hp.1 hp.2
  change cardAt flop p.1 ≠ cardAt flop p.2 at hne
  change cardAt flop p.1 ∉ flop at hn1
  change cardAt flop p.2 ∉ flop at hn2
  constructor
  · simp [hf.len]
  · rw [List.nodup_append]
    refine ⟨hf.nodup, by simp [hne], ?_⟩
    intro a ha c hc e
    subst e
    simp only [List.mem_cons, List.not_mem_nil, or_false] at hc
    rcases hc with rfl | rfl
    · exact hn1 ha
    · exact hn2 ha
  · intro c hc
    simp only [List.mem_append, List.mem_cons, List.not_mem_nil, or_false] at hc
    rcases hc with hc | rfl | rfl
    · exact hf.valid c hc
    · exact hv1
    · exact hv2
  · intro pc hpc
    obtain ⟨e, he, rfl⟩ := List.mem_map.mp hpc
    exact ⟨(hch e he).1, (hch e he).2.1, lt_ne (hch e he).2.2⟩

/-- the showdown the deal stands for, in terms of the entries -/
theorem showdownOfDeal_eq (ops : WOps W) (flop : List Card) (p : Nat × Nat) (ch : List (Combo × W))
    (hch : ChWf ch) :
    showdownOfDeal ops flop (dealOf flop p ch)
      = showdownNew (ch.map (·.1)) (flop ++ [cardAt flop p.1, cardAt flop p.2])
          (ch.foldl (fun p c => ops.mul p c.2) ops.one) := by
  have e1 : ((dealOf flop p ch).choice.map fun c => (⟨Card.ofCode c.1, Card.ofCode c.2.1⟩ : Combo))
      = ch.map (·.1) := by
    simp only [dealOf, List.map_map]
    apply List.map_congr_left
    intro e he
    obtain ⟨h1, h2, _⟩ := hch e he
    simp only [Function.comp, toSpec, ofCode_code _ h1, ofCode_code _ h2]
  have e2 : (dealOf flop p ch).choice.foldl (fun p c => ops.mul p c.2.2) ops.one
      = ch.foldl (fun p c => ops.mul p c.2) ops.one := by
    simp only [dealOf, List.foldl_map, toSpec]
  unfold showdownOfDeal
  rw [e1, e2]
  rfl

/-- a legal deal stands for a showdown with the expected payload -/
theorem payload_core (ops : WOps W) (flop : List Card) (p : Nat × Nat) (ch : List (Combo × W))
    (hf : WfFlop flop) (hp : p.1 < p.2 ∧ p.2 < 49) (hch : ChWf ch)
    (hleg : Deal.legal (flop.map Card.code) (dealOf flop p ch) = true) :
    ∃ sd : Showdown W, showdownOfDeal ops flop (dealOf flop p ch) = .ok (some sd)
      ∧ sd.board = flop ++ [cardAt flop p.1, cardAt flop p.2]
      ∧ sd.players.map (·.hole) = ch.map (·.1)
      ∧ sd.prob = ch.foldl (fun p c => ops.mul p c.2) ops.one
      ∧ (flop ++ [cardAt flop p.1, cardAt flop p.2] ++ holes ch).Nodup := by
  have hnd := (legal_iff_nodup flop p ch hf hp hch).mp hleg
  obtain ⟨_, hno⟩ := (nodup_split flop p ch hf hp).mp hnd
  obtain ⟨sd, h1, h2, h3, h4, _⟩ := C03.C03_some (flop ++ [cardAt flop p.1, cardAt flop p.2]) (ch.map (·.1))
    (ch.foldl (fun p c => ops.mul p c.2) ops.one) (wfTable flop p ch hf hp hch) hno
  exact ⟨sd, by rw [showdownOfDeal_eq ops flop p ch hch, h1], h2, h4, h3, hnd⟩

/-- the iterator at a raw position whose deal is legal: the showdown of that deal -/
theorem attempt_legal (ops : WOps W) (flop : List Card) (ranges : List (List (Combo × W))) (b p : Nat × Nat)
    (v : List Nat) (ch : List (Combo × W)) (hf : WfFlop flop) (hp : p.1 < p.2 ∧ p.2 < 49)
    (hpick : pick ranges v = some ch) (hch : ChWf ch)
    (hleg : Deal.legal (flop.map Card.code) (dealOf flop p ch) = true) :
    attempt ops (st flop ranges b p v) = showdownOfDeal ops flop (dealOf flop p ch) := by
  have hnd := (legal_iff_nodup flop p ch hf hp hch).mp hleg
  obtain ⟨hfl, _⟩ := (nodup_split flop p ch hf hp).mp hnd
  rw [attempt_eq ops flop ranges b p v ch hf hp hpick, if_pos hfl, showdownOfDeal_eq ops flop p ch hch]

/-- the iterator at a raw position whose deal is not legal: skipped -/
theorem attempt_illegal (ops : WOps W) (flop : List Card) (ranges : List (List (Combo × W))) (b p : Nat × Nat)
    (v : List Nat) (ch : List (Combo × W)) (hf : WfFlop flop) (hp : p.1 < p.2 ∧ p.2 < 49)
    (hpick : pick ranges v = some ch) (hch : ChWf ch)
    (hleg : Deal.legal (flop.map Card.code) (dealOf flop p ch) = false) :
    attempt ops (st flop ranges b p v) = .ok none := by
  have hnd : ¬ (flop ++ [cardAt flop p.1, cardAt flop p.2] ++ holes ch).Nodup := by
    intro h
    rw [(legal_iff_nodup flop p ch hf hp hch).mpr h] at hleg
    cases hleg
  rw [attempt_eq ops flop ranges b p v ch hf hp hpick]
  split
  · rename_i hfl
    rw [C03.C03_none_iff _ _ _ (wfTable flop p ch hf hp hch)]
    apply Decidable.byContradiction
    intro hno
    apply hnd
    rw [nodup_split flop p ch hf hp]
    refine ⟨hfl, fun pc hpc => ?_⟩
    cases hc : C03.collides (flop ++ [cardAt flop p.1, cardAt flop p.2]) pc with
    | false => rfl
    | true => exact absurd ⟨pc, hpc, hc⟩ hno
  · rfl

end EspadaVerif.IterLemmas
