/-
Lemmas/IterOdometer: `Spec.product` (last list fastest) against the per-player counters of the iterator:
`pick` reads the entries under a counter vector, `afterE` lists the choices strictly after it;
`incrementable` / the update of `advance` walk through `product` one choice at a time.
-/
import EspadaVerif.Model.Iter
import EspadaVerif.Spec.Deals

namespace EspadaVerif.IterLemmas
open EspadaVerif Spec

/-! ### generalities on `product` -/

theorem product_map {α β : Type} (f : α → β) (L : List (List α)) :
    product (L.map (List.map f)) = (product L).map (List.map f) := by
  induction L with
  | nil => rfl
  | cons l rest ih =>
    simp only [List.map_cons, product, ih, List.flatMap_map, List.map_flatMap, List.map_map]
    congr 1

theorem product_eq_nil {α : Type} (L : List (List α)) (h : ∃ l ∈ L, l = []) : product L = [] := by
  induction L with
  | nil => obtain ⟨_, hl, _⟩ := h; cases hl
  | cons l rest ih =>
    simp only [product, List.flatMap_eq_nil_iff]
    intro x hx
    obtain ⟨l', hl', he⟩ := h
    rcases List.mem_cons.mp hl' with rfl | hl'
    · subst he; cases hx
    · rw [ih ⟨l', hl', he⟩]; rfl

theorem length_flatMap_const {α β : Type} (l : List α) (f : α → List β) (m : Nat)
    (h : ∀ x ∈ l, (f x).length = m) : (l.flatMap f).length = l.length * m := by
  induction l with
  | nil => simp
  | cons x l ih =>
    simp only [List.flatMap_cons, List.length_append, List.length_cons]
    rw [ih (fun y hy => h y (List.mem_cons_of_mem _ hy)), h x (by simp), Nat.add_mul, Nat.one_mul,
      Nat.add_comm]

theorem product_length {α : Type} (L : List (List α)) (a : Nat) :
    (L.map List.length).foldl (· * ·) a = a * (product L).length := by
  induction L generalizing a with
  | nil => simp [product]
  | cons l rest ih =>
    simp only [List.map_cons, List.foldl_cons, product]
    rw [ih, length_flatMap_const l _ (product rest).length (fun x _ => by simp), Nat.mul_assoc]

theorem mem_product {α : Type} {L : List (List α)} {ch : List α} (h : ch ∈ product L) :
    ∀ e ∈ ch, ∃ l ∈ L, e ∈ l := by
  induction L generalizing ch with
  | nil =>
    simp only [product, List.mem_singleton] at h
    subst h; intro e he; cases he
  | cons l rest ih =>
    simp only [product, List.mem_flatMap, List.mem_map] at h
    obtain ⟨x, hx, xs, hxs, rfl⟩ := h
    intro e he
    rcases List.mem_cons.mp he with rfl | he
    · exact ⟨l, by simp, hx⟩
    · obtain ⟨l', hl', h'⟩ := ih hxs e he
      exact ⟨l', List.mem_cons_of_mem _ hl', h'⟩

/-! ### reading a choice under a counter vector -/

/-- the entries selected by the counters (what `pickLoop` reads); `none` = out of range -/
def pick {α : Type} : List (List α) → List Nat → Option (List α)
  | [], _ => some []
  | _ :: _, [] => none
  | es :: rest, i :: v =>
    match es[i]?, pick rest v with
    | some x, some xs => some (x :: xs)
    | _, _ => none

/-- the choices strictly after the one selected by the counters, in `product` order -/
def afterE {α : Type} : List (List α) → List Nat → List (List α)
  | [], _ => []
  | _ :: _, [] => []
  | es :: rest, i :: v =>
    match es[i]? with
    | none => []
    | some x => (afterE rest v).map (x :: ·) ++ (es.drop (i + 1)).flatMap fun y => (product rest).map (y :: ·)

theorem mem_pick {α : Type} {L : List (List α)} {v : List Nat} {ch : List α} (h : pick L v = some ch) :
    ∀ e ∈ ch, ∃ l ∈ L, e ∈ l := by
  induction L generalizing v ch with
  | nil =>
    simp only [pick, Option.some.injEq] at h
    subst h; intro e he; cases he
  | cons l rest ih =>
    cases v with
    | nil => simp [pick] at h
    | cons i v =>
      simp only [pick] at h
      split at h
      · rename_i x xs hx hxs
        simp only [Option.some.injEq] at h
        subst h
        intro e he
        rcases List.mem_cons.mp he with rfl | he
        · exact ⟨l, by simp, List.mem_of_getElem? hx⟩
        · obtain ⟨l', hl', h'⟩ := ih hxs e he
          exact ⟨l', List.mem_cons_of_mem _ hl', h'⟩
      · cases h

/-- the start vector selects the first choice of `product` -/
theorem odo_zero {α : Type} (L : List (List α)) (hne : ∀ l ∈ L, l ≠ []) :
    ∃ ch, pick L (List.replicate L.length 0) = some ch
      ∧ product L = ch :: afterE L (List.replicate L.length 0) := by
  induction L with
  | nil => exact ⟨[], rfl, rfl⟩
  | cons l rest ih =>
    obtain ⟨ch, hp, hprod⟩ := ih (fun l' hl' => hne l' (List.mem_cons_of_mem _ hl'))
    cases l with
    | nil => exact absurd rfl (hne [] (by simp))
    | cons x tl =>
      refine ⟨x :: ch, ?_, ?_⟩
      · simp [List.replicate_succ, pick, hp]
      · simp only [List.length_cons, List.replicate_succ, afterE, List.getElem?_cons_zero,
          Nat.zero_add, List.drop_succ_cons, List.drop_zero, product, List.flatMap_cons]
        rw [← List.cons_append]
        congr 1
        rw [hprod]
        simp

/-- no counter can be incremented: the current choice is the last one -/
theorem odo_none {α : Type} (L : List (List α)) (v : List Nat)
    (h : incrementable v (L.map List.length) = none) : afterE L v = [] := by
  induction L generalizing v with
  | nil => rfl
  | cons l rest ih =>
    cases v with
    | nil => rfl
    | cons i v =>
      simp only [List.map_cons, incrementable] at h
      split at h
      · cases h
      · rename_i hin
        split at h
        · cases h
        · rename_i hi
          simp only [afterE]
          split
          · rfl
          · rw [ih v hin, List.drop_eq_nil_of_le (by omega)]
            rfl

/-- the counter vector after the odometer step of `advance` -/
def bump (v : List Nat) (k : Nat) : List Nat :=
  (v.take k) ++ [v.getD k 0 + 1] ++ List.replicate (v.length - k - 1) 0

theorem bump_succ (i : Nat) (v : List Nat) (k : Nat) : bump (i :: v) (k + 1) = i :: bump v k := by
  simp only [bump, List.take_succ_cons, List.getD_cons_succ, List.length_cons, List.cons_append]
  congr 3
  omega

theorem bump_zero (i : Nat) (v : List Nat) : bump (i :: v) 0 = (i + 1) :: List.replicate v.length 0 := by
  simp [bump]

theorem incrementable_lt {v lens : List Nat} {k : Nat} (h : incrementable v lens = some k) : k < v.length := by
  induction v generalizing lens k with
  | nil => simp [incrementable] at h
  | cons i v ih =>
    cases lens with
    | nil => simp [incrementable] at h
    | cons n lens =>
      simp only [incrementable] at h
      split at h
      · rename_i k' hk'
        simp only [Option.some.injEq] at h
        subst h
        have := ih hk'
        simp; omega
      · split at h
        · simp only [Option.some.injEq] at h
          subst h; simp
        · cases h

theorem bump_length {v lens : List Nat} {k : Nat} (h : incrementable v lens = some k) :
    (bump v k).length = v.length := by
  have := incrementable_lt h
  simp only [bump, List.length_append, List.length_take, List.length_cons, List.length_nil,
    List.length_replicate]
  omega

/-- a counter can be incremented: the updated vector selects the next choice of `product` -/
theorem odo_some {α : Type} (L : List (List α)) (hne : ∀ l ∈ L, l ≠ []) (v : List Nat) (k : Nat)
    (h : incrementable v (L.map List.length) = some k) (hlen : v.length = L.length)
    (hin : ∃ ch, pick L v = some ch) :
    ∃ ch', pick L (bump v k) = some ch' ∧ afterE L v = ch' :: afterE L (bump v k) := by
  induction L generalizing v k with
  | nil => cases v <;> simp [incrementable] at h
  | cons l rest ih =>
    cases v with
    | nil => simp [incrementable] at h
    | cons i v =>
      have hne' : ∀ l' ∈ rest, l' ≠ [] := fun l' hl' => hne l' (List.mem_cons_of_mem _ hl')
      have hlen' : v.length = rest.length := by simpa using hlen
      obtain ⟨ch, hch⟩ := hin
      simp only [pick] at hch
      split at hch
      · rename_i x xs hx hxs
        simp only [List.map_cons, incrementable] at h
        split at h
        · rename_i k' hk'
          simp only [Option.some.injEq] at h
          subst h
          obtain ⟨ch', hp', ha'⟩ := ih hne' v k' hk' hlen' ⟨xs, hxs⟩
          refine ⟨x :: ch', ?_, ?_⟩
          · rw [bump_succ]
            simp [pick, hx, hp']
          · rw [bump_succ]
            simp only [afterE, hx, ha', List.map_cons, List.cons_append]
        · rename_i hnone
          split at h
          · rename_i hi
            simp only [Option.some.injEq] at h
            subst h
            obtain ⟨ch0, hp0, hprod⟩ := odo_zero rest hne'
            have hi' : i + 1 < l.length := hi
            have hx1 : l[i + 1]? = some l[i + 1] := List.getElem?_eq_getElem hi'
            refine ⟨l[i + 1] :: ch0, ?_, ?_⟩
            · rw [bump_zero, hlen']
              simp [pick, hx1, hp0]
            · rw [bump_zero, hlen']
              simp only [afterE, hx, hx1, odo_none rest v hnone, List.map_nil, List.nil_append]
              rw [List.drop_eq_getElem_cons hi', List.flatMap_cons, hprod]
              simp
          · cases h
      · cases hch

end EspadaVerif.IterLemmas
