/-
Lemmas/Numbering: the closed-form class numbering of Spec/Poker.lean (`sclass`, `uclass`) is exactly
the order rank of the rule-book `strength` among the 7462 shapes of five-card hands:
class 1 = strongest … class 7462 = weakest, equal class ⇔ equal strength.

Proof: `Kernel.unrank` lists the 7462 shapes in decreasing strength (a generated table).  The kernel
checks (Kernel/NumA*, NumB*, glued in Kernel/NumAll) that
  (A) every valid shape `s` has `1 ≤ cls s ≤ 7462`, `unrank (cls s) = s` and matching categories,
  (B) every `i` in `1..7462` has `unrank i` valid of class `i`, strictly stronger than `unrank (i+1)`.
Everything else follows by induction and trichotomy.
-/
import EspadaVerif.Spec.Poker
import EspadaVerif.Kernel.NumAll

namespace EspadaVerif.Lemmas
open EspadaVerif Spec Kernel

/-- pass A, lifted: what the kernel checked for every valid shape -/
theorem okShape_of_valid (s : Shape) (h : s.valid = true) : okShape s = true := by
  obtain ⟨su, a, b, c, d, e⟩ := s
  have hv := h
  simp only [Shape.valid, Bool.and_eq_true, decide_eq_true_eq] at hv
  obtain ⟨⟨⟨⟨⟨⟨hab, hbc⟩, hcd⟩, hde⟩, he⟩, _⟩, _⟩ := hv
  have hA := chkRange_sound leafA 2197 0 numA_all (a * 169 + b * 13 + c) (by omega) (by omega)
  have e1 : (a * 169 + b * 13 + c) / 169 = a := by omega
  have e2 : (a * 169 + b * 13 + c) / 13 % 13 = b := by omega
  have e3 : (a * 169 + b * 13 + c) % 13 = c := by omega
  simp only [leafA, e1, e2, e3, leafP, hab, hbc, decide_true, Bool.and_self, Bool.not_true,
    Bool.false_or] at hA
  have hD := chkRange_sound _ _ _ hA d hcd (by omega)
  have hE := chkRange_sound _ _ _ hD e hde (by omega)
  simp only [Bool.and_eq_true] at hE
  cases su
  · exact hE.1
  · exact hE.2

theorem valid_facts (s : Shape) (h : s.valid = true) :
    1 ≤ s.cls ∧ s.cls ≤ 7462 ∧ unrank s.cls = s ∧ categoryOfStrength s.str = catOfClass s.cls := by
  have hok := okShape_of_valid s h
  simp only [okShape, h, Bool.not_true, Bool.false_or, Bool.and_eq_true, decide_eq_true_eq,
    beq_iff_eq] at hok
  obtain ⟨⟨⟨h1, h2⟩, h3⟩, h4⟩ := hok
  exact ⟨h1, h2, h3, h4⟩

/-- pass B, lifted: what the kernel checked for every class index -/
theorem unrank_facts (i : Nat) (h1 : 1 ≤ i) (h2 : i ≤ 7462) :
    (unrank i).valid = true ∧ (unrank i).cls = i ∧ (i < 7462 → (unrank (i + 1)).str < (unrank i).str) := by
  have hB := chkRange_sound leafB 7462 1 numB_all i h1 (by omega)
  simp only [leafB, Bool.and_eq_true, Bool.or_eq_true, beq_iff_eq, decide_eq_true_eq] at hB
  obtain ⟨⟨hv, hc⟩, hs⟩ := hB
  refine ⟨hv, hc, fun hlt => ?_⟩
  rcases hs with hs | hs
  · omega
  · exact hs

/-- the table is strictly decreasing in strength -/
theorem unrank_str_lt (i : Nat) (h1 : 1 ≤ i) : ∀ j, i < j → j ≤ 7462 → (unrank j).str < (unrank i).str := by
  intro j
  induction j with
  | zero => intro h; omega
  | succ j ih =>
    intro hij hj
    have hstep := (unrank_facts j (by omega) (by omega)).2.2 (by omega)
    by_cases hji : i = j
    · subst hji; exact hstep
    · exact Nat.lt_trans hstep (ih (by omega) (by omega))

theorem str_lt_of_cls_lt (s t : Shape) (hs : s.valid = true) (ht : t.valid = true) (h : s.cls < t.cls) :
    t.str < s.str := by
  obtain ⟨hs1, _, hsu, _⟩ := valid_facts s hs
  obtain ⟨_, ht2, htu, _⟩ := valid_facts t ht
  have := unrank_str_lt s.cls hs1 t.cls h ht2
  rwa [hsu, htu] at this

theorem eq_of_cls_eq (s t : Shape) (hs : s.valid = true) (ht : t.valid = true) (h : s.cls = t.cls) : s = t := by
  have hsu := (valid_facts s hs).2.2.1
  have htu := (valid_facts t ht).2.2.1
  rw [← hsu, ← htu, h]

theorem cls_range (s : Shape) (h : s.valid = true) : 1 ≤ s.cls ∧ s.cls ≤ 7462 :=
  ⟨(valid_facts s h).1, (valid_facts s h).2.1⟩

theorem cls_lt_iff (s t : Shape) (hs : s.valid = true) (ht : t.valid = true) :
    s.cls < t.cls ↔ t.str < s.str := by
  constructor
  · exact str_lt_of_cls_lt s t hs ht
  · intro h
    rcases Nat.lt_trichotomy s.cls t.cls with hlt | heq | hgt
    · exact hlt
    · have := eq_of_cls_eq s t hs ht heq
      subst this; omega
    · have := str_lt_of_cls_lt t s ht hs hgt
      omega

theorem cls_eq_iff (s t : Shape) (hs : s.valid = true) (ht : t.valid = true) :
    s.cls = t.cls ↔ s.str = t.str := by
  constructor
  · intro h
    rw [eq_of_cls_eq s t hs ht h]
  · intro h
    rcases Nat.lt_trichotomy s.cls t.cls with hlt | heq | hgt
    · have := str_lt_of_cls_lt s t hs ht hlt
      omega
    · exact heq
    · have := str_lt_of_cls_lt t s ht hs hgt
      omega

theorem cls_onto (i : Nat) (h1 : 1 ≤ i) (h2 : i ≤ 7462) : ∃ s : Shape, s.valid = true ∧ s.cls = i :=
  ⟨unrank i, (unrank_facts i h1 h2).1, (unrank_facts i h1 h2).2.1⟩

/-- the category read off the class index is the rule book's category -/
theorem category_of_cls (s : Shape) (h : s.valid = true) : categoryOfStrength s.str = catOfClass s.cls :=
  (valid_facts s h).2.2.2

end EspadaVerif.Lemmas
