/-
Lemmas/Numbering: the closed-form class numbering of Spec/Poker.lean (`sclass`, `uclass`) is exactly
the order rank of the rule-book `strength` among the 7462 shapes of five-card hands:
class 1 = strongest … class 7462 = weakest, equal class ⇔ equal strength.
-/
import EspadaVerif.Spec.Poker

namespace EspadaVerif.Lemmas
open EspadaVerif Spec

theorem cls_range (s : Shape) (h : s.valid = true) : 1 ≤ s.cls ∧ s.cls ≤ 7462 := by
  sorry

theorem cls_lt_iff (s t : Shape) (hs : s.valid = true) (ht : t.valid = true) :
    s.cls < t.cls ↔ t.str < s.str := by
  sorry

theorem cls_eq_iff (s t : Shape) (hs : s.valid = true) (ht : t.valid = true) :
    s.cls = t.cls ↔ s.str = t.str := by
  sorry

theorem cls_onto (i : Nat) (h1 : 1 ≤ i) (h2 : i ≤ 7462) : ∃ s : Shape, s.valid = true ∧ s.cls = i := by
  sorry

/-- the category read off the class index is the rule book's category -/
theorem category_of_cls (s : Shape) (h : s.valid = true) : categoryOfStrength s.str = catOfClass s.cls := by
  sorry

end EspadaVerif.Lemmas
