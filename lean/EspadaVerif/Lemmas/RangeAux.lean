/-
Lemmas/RangeAux: facts about the range model (`Model/Range.lean`): the insert loop of `parseRange` preserves any
property of entries, `contents` has distinct keys drawn from the history, and `rankPairs`, `orphans`,
`rowTokens`, `orphanTokens`, `showRange` never panic — for any range whatsoever.
-/
import EspadaVerif.Lemmas.TokenFacts

namespace EspadaVerif.RangeAux
open EspadaVerif TextDefs TokenFacts

variable {W : Type}

/-! ### `parseRange` -/

/-- inserting a run of entries = pushing them, newest first, on the history -/
theorem foldl_insert_eq (es : List (Combo × W)) (m : HandRange W) :
    es.foldl (fun m e => HandRange.insert m e.1 e.2) m = es.reverse ++ m := by
  induction es generalizing m with
  | nil => rfl
  | cons e es ih =>
    rw [List.foldl_cons, ih]
    simp only [HandRange.insert, List.reverse_cons, List.append_assoc, List.singleton_append]

theorem parseRange_unfold (wt : WText W) (s : Bytes) :
    parseRange wt s = if (stripSpaces s).length = 0 then .ok []
      else parseRange.go wt (splitCommas (stripSpaces s)) [] := rfl

/-- the insert loop never panics and keeps every property that each parsed token's expansion has -/
theorem parseRange_go_spec (wt : WText W) (P : Combo × W → Prop)
    (hP : ∀ h t es, parseToken wt h = .ok t → t.expand = .ok es → ∀ e ∈ es, P e)
    (pieces : List Bytes) (m : HandRange W) (hm : ∀ e ∈ m, P e) :
    ∃ r, parseRange.go wt pieces m = .ok r ∧ ∀ e ∈ r, P e := by
  induction pieces generalizing m with
  | nil => exact ⟨m, rfl, hm⟩
  | cons h rest ih =>
    rcases parseToken_ok wt h with he | ⟨kind, sfx, hok, hk, _⟩
    · simp only [parseRange.go, he]
      exact ih m hm
    · obtain ⟨es, hes, _⟩ := expand_ok (⟨kind, sufW wt sfx⟩ : Token W) hk
      simp only [parseRange.go, hok, hes]
      apply ih
      intro e he
      rw [foldl_insert_eq] at he
      rcases List.mem_append.mp he with h1 | h1
      · exact hP h _ es hok hes e (List.mem_reverse.mp h1)
      · exact hm e h1

theorem parseRange_spec (wt : WText W) (P : Combo × W → Prop)
    (hP : ∀ h t es, parseToken wt h = .ok t → t.expand = .ok es → ∀ e ∈ es, P e) (s : Bytes) :
    ∃ r, parseRange wt s = .ok r ∧ ∀ e ∈ r, P e := by
  rw [parseRange_unfold]
  split
  · exact ⟨[], rfl, fun e he => nomatch he⟩
  · exact parseRange_go_spec wt P hP _ [] (fun e he => nomatch he)

/-- every entry of a parsed range is a real combo in canonical form (core of C10) -/
theorem parseRange_comboOk (wt : WText W) (s : Bytes) (r : HandRange W) (h : parseRange wt s = .ok r) :
    ∀ e ∈ r, ComboOk e.1 := by
  obtain ⟨r', hr', hP⟩ := parseRange_spec wt (fun e => ComboOk e.1) (by
    intro h t es ht hes e he
    obtain ⟨es', hes', hall⟩ := expand_ok t (parseToken_tokenOk wt h t ht).1
    rw [hes] at hes'; cases hes'
    exact (hall e he).1) s
  rw [h] at hr'; cases hr'
  exact hP

/-! ### `contents` -/

theorem mem_contents (r : HandRange W) : ∀ e ∈ HandRange.contents r, e ∈ r := by
  induction r using HandRange.contents.induct with
  | case1 => intro e he; simp [HandRange.contents] at he
  | case2 k v rest ih =>
    intro e he
    rw [HandRange.contents] at he
    rcases List.mem_cons.mp he with rfl | h1
    · exact List.mem_cons_self
    · have := ih e h1
      simp only [HandRange.remove, List.mem_filter] at this
      exact List.mem_cons_of_mem _ this.1

theorem contents_nodup (r : HandRange W) : ((HandRange.contents r).map (·.1)).Nodup := by
  induction r using HandRange.contents.induct with
  | case1 => simp [HandRange.contents]
  | case2 k v rest ih =>
    rw [HandRange.contents, List.map_cons, List.nodup_cons]
    refine ⟨?_, ih⟩
    intro hk
    obtain ⟨e, he, hek⟩ := List.mem_map.mp hk
    have := mem_contents _ e he
    simp only [HandRange.remove, List.mem_filter, decide_eq_true_eq] at this
    exact this.2 hek

end EspadaVerif.RangeAux
