/-
Lemmas/RangeAux: facts about the range model (`Model/Range.lean`): the insert loop of `parseRange` preserves any
property of entries, `contents` has distinct keys drawn from the history, and `rankPairs`, `orphans`,
`rowTokens`, `orphanTokens`, `showRange` never panic — for any range whatsoever.
-/
import EspadaVerif.Lemmas.TokenFacts

namespace EspadaVerif.RangeAux
open EspadaVerif TextDefs TokenFacts

variable {W : Type}

/-! ### `parseRange` -/

/-- inserting a run of entries = pushing them, newest first, on the history -/
theorem foldl_insert_eq (es : List (Combo × W)) (m : HandRange W) :
    es.foldl (fun m e => HandRange.insert m e.1 e.2) m = es.reverse ++ m := by
  induction es generalizing m with
  | nil => rfl
  | cons e es ih =>
    rw [List.foldl_cons, ih]
    simp only [HandRange.insert, List.reverse_cons, List.append_assoc, List.singleton_append]

theorem parseRange_unfold (wt : WText W) (s : Bytes) :
    parseRange wt s = if (stripSpaces s).length = 0 then .ok []
      else parseRange.go wt (splitCommas (stripSpaces s)) [] := rfl

/-- the insert loop never panics and keeps every property that each parsed token's expansion has -/
theorem parseRange_go_spec (wt : WText W) (P : Combo × W → Prop)
    (hP : ∀ h t es, parseToken wt h = .ok t → t.expand = .ok es → ∀ e ∈ es, P e)
    (pieces : List Bytes) (m : HandRange W) (hm : ∀ e ∈ m, P e) :
    ∃ r, parseRange.go wt pieces m = .ok r ∧ ∀ e ∈ r, P e := by
  induction pieces generalizing m with
  | nil => exact ⟨m, rfl, hm⟩
  | cons h rest ih =>
    rcases parseToken_ok wt h with he | ⟨kind, sfx, hok, hk, _⟩
    · simp only [parseRange.go, he]
      exact ih m hm
    · obtain ⟨es, hes, _⟩ := expand_ok (⟨kind, sufW wt sfx⟩ : Token W) hk
      simp only [parseRange.go, hok, hes]
      apply ih
      intro e he
      rw [foldl_insert_eq] at he
      rcases List.mem_append.mp he with h1 | h1
      · exact hP h _ es hok hes e (List.mem_reverse.mp h1)
      · exact hm e h1

theorem parseRange_spec (wt : WText W) (P : Combo × W → Prop)
    (hP : ∀ h t es, parseToken wt h = .ok t → t.expand = .ok es → ∀ e ∈ es, P e) (s : Bytes) :
    ∃ r, parseRange wt s = .ok r ∧ ∀ e ∈ r, P e := by
  rw [parseRange_unfold]
  split
  · exact ⟨[], rfl, fun e he => nomatch he⟩
  · exact parseRange_go_spec wt P hP _ [] (fun e he => nomatch he)

/-- every entry of a parsed range is a real combo in canonical form (core of C10) -/
theorem parseRange_comboOk (wt : WText W) (s : Bytes) (r : HandRange W) (h : parseRange wt s = .ok r) :
    ∀ e ∈ r, ComboOk e.1 := by
  obtain ⟨r', hr', hP⟩ := parseRange_spec wt (fun e => ComboOk e.1) (by
    intro h t es ht hes e he
    obtain ⟨es', hes', hall⟩ := expand_ok t (parseToken_tokenOk wt h t ht).1
    rw [hes] at hes'; cases hes'
    exact (hall e he).1) s
  rw [h] at hr'; cases hr'
  exact hP

/-! ### `contents` -/

theorem mem_contents (r : HandRange W) : ∀ e ∈ HandRange.contents r, e ∈ r := by
  induction r using HandRange.contents.induct with
  | case1 => intro e he; simp [HandRange.contents] at he
  | case2 k v rest ih =>
    intro e he
    rw [HandRange.contents] at he
    rcases List.mem_cons.mp he with rfl | h1
    · exact List.mem_cons_self
    · have := ih e h1
      simp only [HandRange.remove, List.mem_filter] at this
      exact List.mem_cons_of_mem _ this.1

theorem contents_nodup (r : HandRange W) : ((HandRange.contents r).map (·.1)).Nodup := by
  induction r using HandRange.contents.induct with
  | case1 => simp [HandRange.contents]
  | case2 k v rest ih =>
    rw [HandRange.contents, List.map_cons, List.nodup_cons]
    refine ⟨?_, ih⟩
    intro hk
    obtain ⟨e, he, hek⟩ := List.mem_map.mp hk
    have := mem_contents _ e he
    simp only [HandRange.remove, List.mem_filter, decide_eq_true_eq] at this
    exact this.2 hek

/-! ### `rankPairs`, `orphans` -/

theorem rankRange_to_deuce (a : Nat) (ha : a < 13) :
    rankRange a rankDeuce true = .ok (List.range' a (13 - a)) := by
  have := (C13.rank_range_run a 12 ha (by omega) (by omega)).2
  simpa [rankDeuce] using this

theorem rankRange_highs : rankRange rankAce rankTrey true = .ok (List.range' 0 12) := by decide

/-- the rank pairs reported for one high card: per kicker below it, suited then offsuit -/
def rowOf (wt : WText W) (r : HandRange W) (high : Nat) : List (RankPair × W) :=
  (List.range' (high + 1) (12 - high)).flatMap fun kicker =>
    ((rankPairWeight wt r (.suited high kicker) (mkPair ⟨high, 0⟩ ⟨kicker, 0⟩)).map fun p => (RankPair.suited high kicker, p)).toList
    ++ ((rankPairWeight wt r (.ofsuit high kicker) (mkPair ⟨high, 0⟩ ⟨kicker, 1⟩)).map fun p => (RankPair.ofsuit high kicker, p)).toList

theorem rankPairs_rows_eq (wt : WText W) (r : HandRange W) (highs : List Nat) (h : ∀ x ∈ highs, x ≤ 11) :
    rankPairs.rows wt r highs = .ok (highs.flatMap (rowOf wt r)) := by
  induction highs with
  | nil => rfl
  | cons high rest ih =>
    have hh : high ≤ 11 := h high List.mem_cons_self
    have e : 13 - (high + 1) = 12 - high := by omega
    simp only [rankPairs.rows, rankNext_lt high (by omega), rankRange_to_deuce (high + 1) (by omega),
      ih (fun x hx => h x (List.mem_cons_of_mem _ hx)), e, List.flatMap_cons, rowOf]

/-- the pocket pairs reported -/
def pocketsOf (wt : WText W) (r : HandRange W) : List (RankPair × W) :=
  (List.range 13).filterMap fun rank =>
    (rankPairWeight wt r (.pocket rank) (mkPair ⟨rank, 0⟩ ⟨rank, 1⟩)).map fun p => (RankPair.pocket rank, p)

/-- `rank_pairs()` never panics; its result, explicitly -/
theorem rankPairs_eq (wt : WText W) (r : HandRange W) :
    rankPairs wt r = .ok (pocketsOf wt r ++ (List.range' 0 12).flatMap (rowOf wt r)) := by
  have hrows := rankPairs_rows_eq wt r (List.range' 0 12) (by
    intro x hx; simp only [List.mem_range'_1] at hx; omega)
  simp only [rankPairs, C13.rank_range_all, rankRange_highs, hrows, pocketsOf]

theorem orphans_eq (wt : WText W) (r : HandRange W) :
    orphans wt r = .ok ((pocketsOf wt r ++ (List.range' 0 12).flatMap (rowOf wt r)).foldl
      (fun m rp => rp.1.combos.foldl (fun m cp => HandRange.remove m cp) m) r) := by
  simp only [orphans, rankPairs_eq]

/-! ### `rowTokens` -/

theorem rankPrev_pos (r : Nat) (h1 : 1 ≤ r) (h2 : r < 13) : rankPrev r = some (r - 1) := by
  have := (C13.rank_next_prev r h2).2
  rw [this, if_pos (by omega)]

/-- the run-length loop never panics when every rank after the first is a rank with a predecessor and the open
run, if any, starts at a rank that has a weight -/
theorem rowTokens_loop_ok (wt : WText W) (first : Nat) (mk : Nat → RankPair) (look : Nat → Option W)
    (row : List Nat) (start : Option Nat) (acc : List (Token W))
    (hstart : ∀ s, start = some s → (look s).isSome = true)
    (hrow : ∀ r ∈ (if start.isSome then row else row.tail), 1 ≤ r ∧ r < 13) :
    ∃ st acc', rowTokens.loop wt first mk look row start acc = .ok (st, acc')
      ∧ ∀ s, st = some s → (look s).isSome = true := by
  induction row generalizing start acc with
  | nil => exact ⟨start, acc, rfl, hstart⟩
  | cons rank rest ih =>
    cases start with
    | none =>
      simp only [rowTokens.loop, Option.isNone_none, Bool.true_and]
      apply ih
      · intro s hs
        split at hs
        · rename_i h; cases hs; exact h
        · cases hs
      · intro r hr
        simp only [Option.isSome_none, Bool.false_eq_true, if_false, List.tail_cons] at hrow
        split at hr
        · exact hrow r hr
        · exact hrow r (List.mem_of_mem_tail hr)
    | some s =>
      simp only [Option.isSome_some, if_true] at hrow
      have hs := hstart s rfl
      obtain ⟨sp, hsp⟩ := Option.isSome_iff_exists.mp hs
      have hrank := hrow rank List.mem_cons_self
      have hrest : ∀ r ∈ rest, 1 ≤ r ∧ r < 13 := fun r hr => hrow r (List.mem_cons_of_mem _ hr)
      have closed : ∀ (start' : Option Nat) (acc' : List (Token W)),
          (start' = none ∨ (start' = some rank ∧ (look rank).isSome = true)) →
          ∃ st acc'', rowTokens.loop wt first mk look rest start' acc' = .ok (st, acc'')
            ∧ ∀ s, st = some s → (look s).isSome = true := by
        intro start' acc' h'
        apply ih
        · intro s' hs'
          rcases h' with h' | ⟨h', h''⟩
          · rw [h'] at hs'; cases hs'
          · rw [h'] at hs'; cases hs'; exact h''
        · intro r hr
          split at hr
          · exact hrest r hr
          · exact hrest r (List.mem_of_mem_tail hr)
      have cont : ∀ (acc' : List (Token W)),
          ∃ st acc'', rowTokens.loop wt first mk look rest (some s) acc' = .ok (st, acc'')
            ∧ ∀ s, st = some s → (look s).isSome = true := by
        intro acc'
        apply ih
        · intro s' hs'; cases hs'; exact hs
        · intro r hr; exact hrest r hr
      cases hl : look rank with
      | none =>
        simp only [rowTokens.loop, hsp, rankPrev_pos rank hrank.1 hrank.2, hl, if_true,
          Option.isNone_none, Option.isSome_none, Bool.and_false, Bool.false_eq_true, if_false]
        exact closed _ _ (.inl rfl)
      | some p =>
        cases hw : wt.eq p sp with
        | false =>
          simp only [rowTokens.loop, hsp, rankPrev_pos rank hrank.1 hrank.2, hl, hw, Bool.not_false, if_true,
            Option.isNone_none, Option.isSome_some, Bool.and_true]
          exact closed _ _ (.inr ⟨rfl, by simp [hl]⟩)
        | true =>
          simp only [rowTokens.loop, hsp, rankPrev_pos rank hrank.1 hrank.2, hl, hw, Bool.not_true,
            Bool.false_eq_true, if_false, Option.isNone_some, Bool.false_and]
          exact cont _

theorem rowTokens_ok (wt : WText W) (rps : List (RankPair × W)) (first last : Nat) (mk : Nat → RankPair)
    (row : List Nat) (hrow : ∀ r ∈ row.tail, 1 ≤ r ∧ r < 13) :
    ∃ toks, rowTokens wt rps first last mk row = .ok toks := by
  obtain ⟨st, acc, hloop, hst⟩ := rowTokens_loop_ok wt first mk (fun rank => rpLookup rps (mk rank)) row none []
    (fun s hs => nomatch hs) (by simpa using hrow)
  cases st with
  | none => exact ⟨acc, by simp only [rowTokens, hloop]⟩
  | some s =>
    obtain ⟨sp, hsp⟩ := Option.isSome_iff_exists.mp (hst s rfl)
    simp only [rowTokens, hloop, hsp]
    exact ⟨_, rfl⟩

/-! ### `orphanTokens`, `showRange` -/

theorem orphanTokens_outer_ok (orph : HandRange W) (suits highs : List Nat) (h : ∀ x ∈ highs, x < 13) :
    ∃ l, orphanTokens.outer orph suits highs = .ok l := by
  induction highs with
  | nil => exact ⟨[], rfl⟩
  | cons high rest ih =>
    obtain ⟨tl, htl⟩ := ih (fun x hx => h x (List.mem_cons_of_mem _ hx))
    simp only [orphanTokens.outer, rankRange_to_deuce high (h high List.mem_cons_self), htl]
    exact ⟨_, rfl⟩

theorem orphanTokens_ok (orph : HandRange W) : ∃ l, orphanTokens orph = .ok l := by
  simp only [orphanTokens, C13.rank_range_all, C13.suit_range_all]
  exact orphanTokens_outer_ok orph _ _ (fun x hx => List.mem_range.mp hx)

theorem showRangeTokens_rows_ok (wt : WText W) (rps : List (RankPair × W)) (highs : List Nat)
    (h : ∀ x ∈ highs, x ≤ 11) : ∃ l, showRangeTokens.rows wt rps highs = .ok l := by
  induction highs with
  | nil => exact ⟨[], rfl⟩
  | cons high rest ih =>
    have hh : high ≤ 11 := h high List.mem_cons_self
    obtain ⟨tl, htl⟩ := ih (fun x hx => h x (List.mem_cons_of_mem _ hx))
    have hk : ∀ r ∈ (List.range' (high + 1) (13 - (high + 1))).tail, 1 ≤ r ∧ r < 13 := by
      intro r hr
      have := List.mem_of_mem_tail hr
      simp only [List.mem_range'_1] at this
      omega
    obtain ⟨a, ha⟩ := rowTokens_ok wt rps (high + 1) rankDeuce (.suited high) _ hk
    obtain ⟨b, hb⟩ := rowTokens_ok wt rps (high + 1) rankDeuce (.ofsuit high) _ hk
    simp only [showRangeTokens.rows, rankNext_lt high (by omega), rankRange_to_deuce (high + 1) (by omega),
      ha, hb, htl]
    exact ⟨_, rfl⟩

theorem showRangeTokens_ok (wt : WText W) (r : HandRange W) : ∃ toks, showRangeTokens wt r = .ok toks := by
  have hp : ∀ x ∈ (List.range 13).tail, 1 ≤ x ∧ x < 13 := by decide
  obtain ⟨pt, hpt⟩ := rowTokens_ok wt (pocketsOf wt r ++ (List.range' 0 12).flatMap (rowOf wt r))
    rankAce rankDeuce .pocket (List.range 13) hp
  obtain ⟨rt, hrt⟩ := showRangeTokens_rows_ok wt (pocketsOf wt r ++ (List.range' 0 12).flatMap (rowOf wt r))
    (List.range' 0 12) (by intro x hx; simp only [List.mem_range'_1] at hx; omega)
  obtain ⟨ot, hot⟩ := orphanTokens_ok ((pocketsOf wt r ++ (List.range' 0 12).flatMap (rowOf wt r)).foldl
      (fun m rp => rp.1.combos.foldl (fun m cp => HandRange.remove m cp) m) r)
  simp only [showRangeTokens, rankPairs_eq, orphans_eq, C13.rank_range_all, rankRange_highs, hpt, hrt, hot]
  exact ⟨_, rfl⟩

theorem showRange_ok (wt : WText W) (r : HandRange W) : ∃ txt, showRange wt r = .ok txt := by
  obtain ⟨toks, h⟩ := showRangeTokens_ok wt r
  simp only [showRange, h]
  exact ⟨_, rfl⟩

end EspadaVerif.RangeAux
