/-
Lemmas/FormatFacts: closed forms of the range formatter (`rank_pairs`, `orphan_card_pairs`, `Display for HandRange`)
and the correspondence between the run-length state machine `rowTokens` and `Spec.runs` (used by C17, C06).
-/
import EspadaVerif.Lemmas.TextDefs
import EspadaVerif.Props.C13

namespace EspadaVerif.FormatFacts
open EspadaVerif

variable {W : Type}

/-! ## the run-length state machine and `Spec.runs` -/

def runTok (first : Nat) (mk : Nat → RankPair) (run : Nat × Nat × W) : Token W :=
  let (s, n, w) := run
  if s = 0 ∧ n ≥ 2 then ⟨.bottomClosed (mk (first + n - 1)), w⟩
  else if n = 1 then ⟨.singleRank (mk (first + s)), w⟩
  else ⟨.doubleClosed (mk (first + s)) (first + s + n - 1), w⟩

/-- the flush at the end of `rowTokens` -/
def rowFinish (first last : Nat) (mk : Nat → RankPair) (look : Nat → Option W) :
    Res (Option Nat × List (Token W)) → Res (List (Token W))
  | .ok (none, acc) => .ok acc
  | .ok (some s, acc) =>
    match look s with
    | none => .panic
    | some sp =>
      let tok : Token W :=
        if s = first && last ≠ first then ⟨.bottomClosed (mk last), sp⟩
        else if s = last then ⟨.singleRank (mk s), sp⟩
        else ⟨.doubleClosed (mk s) last, sp⟩
      .ok (acc ++ [tok])
  | .err => .err
  | .panic => .panic

theorem rowTokens_eq (wt : WText W) (rps : List (RankPair × W)) (first last : Nat) (mk : Nat → RankPair)
    (row : List Nat) :
    rowTokens wt rps first last mk row
      = rowFinish first last mk (fun rank => rpLookup rps (mk rank))
          (rowTokens.loop wt first mk (fun rank => rpLookup rps (mk rank)) row none []) := by
  unfold rowTokens rowFinish
  rfl

/-- the token the state machine writes for the run `s .. prev` is the token of that run -/
theorem tok_eq (first : Nat) (mk : Nat → RankPair) (s prev : Nat) (sp : W) (h1 : first ≤ s) (h2 : s ≤ prev) :
    (if (s = first && prev ≠ first) = true then (⟨.bottomClosed (mk prev), sp⟩ : Token W)
      else if s = prev then ⟨.singleRank (mk prev), sp⟩
      else ⟨.doubleClosed (mk s) prev, sp⟩)
    = runTok first mk (s - first, prev + 1 - s, sp) := by
  simp only [runTok]
  by_cases hs : s = first
  · subst hs
    by_cases hp : prev = s
    · subst hp
      simp
    · have e1 : s + (prev + 1 - s) - 1 = prev := by omega
      have e2 : prev + 1 - s ≥ 2 := by omega
      simp [hp, e1, e2]
  · have e0 : ¬ (s - first = 0) := by omega
    by_cases hp : s = prev
    · subst hp
      have e1 : first + (s - first) = s := by omega
      simp [hs, e0, e1]
    · have e1 : first + (s - first) = s := by omega
      have e2 : ¬ (prev + 1 - s = 1) := by omega
      have e3 : s + (prev + 1 - s) - 1 = prev := by omega
      simp [hs, hp, e0, e1, e2, e3]

theorem loop_runs (wt : WText W) (first : Nat) (mk : Nat → RankPair) (look : Nat → Option W) :
    ∀ (n r : Nat), r + n = 13 → first ≤ r →
    ∀ (start : Option Nat) (acc : List (Token W)) (cur : Option (Nat × Nat × W)) (acc' : List (Nat × Nat × W)),
      acc = acc'.map (runTok first mk) →
      (match start with
       | none => cur = none
       | some s => first ≤ s ∧ s < r ∧ ∃ sp, look s = some sp ∧ cur = some (s - first, r - s, sp)) →
      rowFinish first 12 mk look (rowTokens.loop wt first mk look (List.range' r n) start acc)
        = .ok ((Spec.runs.go wt.eq ((List.range' r n).map look) (r - first) cur acc').map (runTok first mk)) := by
  intro n
  induction n with
  | zero =>
    intro r hr hfr start acc cur acc' hacc hst
    simp only [List.range'_zero, List.map_nil, rowTokens.loop, Spec.runs.go]
    cases start with
    | none =>
      simp only at hst
      subst hst
      simp [rowFinish, hacc]
    | some s =>
      obtain ⟨h1, h2, sp, h3, h4⟩ := hst
      subst h4
      simp only [rowFinish, h3, List.map_append, List.map_cons, List.map_nil, hacc]
      have := tok_eq first mk s 12 sp h1 (by omega)
      have e : 12 + 1 - s = r - s := by omega
      rw [e] at this
      rw [← this]
      by_cases hs : s = 12
      · subst hs; simp
      · simp [hs]
  | succ n ih =>
    intro r hr hfr start acc cur acc' hacc hst
    have hstep : r + 1 - first = r - first + 1 := by omega
    simp only [List.range'_succ, List.map_cons, rowTokens.loop]
    cases start with
    | none =>
      simp only at hst
      subst hst
      cases hl : look r with
      | none =>
        simp only [Option.isNone_none, Option.isSome_none, Bool.and_false, Bool.false_eq_true, if_false, Spec.runs.go]
        rw [← hstep]
        exact ih (r + 1) (by omega) (by omega) none acc none acc' hacc rfl
      | some p =>
        simp only [Option.isNone_none, Option.isSome_some, Bool.and_true, if_true, Spec.runs.go]
        rw [← hstep]
        refine ih (r + 1) (by omega) (by omega) (some r) acc _ acc' hacc ⟨hfr, by omega, p, hl, ?_⟩
        have : r + 1 - r = 1 := by omega
        rw [this]
    | some s =>
      obtain ⟨h1, h2, sp, h3, h4⟩ := hst
      subst h4
      have hprev : rankPrev r = some (r - 1) := by
        have := (C13.rank_next_prev r (by omega)).2
        rw [this]; simp; omega
      have htok := tok_eq first mk s (r - 1) sp h1 (by omega)
      have e : r - 1 + 1 - s = r - s := by omega
      rw [e] at htok
      simp only [h3, hprev]
      cases hl : look r with
      | none =>
        simp only [if_true, Option.isNone_none, Option.isSome_none, Bool.and_false, Bool.false_eq_true, if_false, Spec.runs.go]
        rw [← hstep]
        refine ih (r + 1) (by omega) (by omega) none _ none _ ?_ rfl
        rw [List.map_append, hacc, htok]; rfl
      | some p =>
        cases hq : wt.eq p sp with
        | false =>
          simp only [Bool.not_false, if_true, Option.isNone_none, Option.isSome_some, Bool.and_true, Spec.runs.go, hq, Bool.false_eq_true, if_false]
          rw [← hstep]
          refine ih (r + 1) (by omega) (by omega) (some r) _ _ _ ?_ ⟨hfr, by omega, p, hl, ?_⟩
          · rw [List.map_append, hacc, htok]; rfl
          · have : r + 1 - r = 1 := by omega
            rw [this]
        | true =>
          simp only [Bool.not_true, Bool.false_eq_true, if_false, Option.isNone_some, Bool.false_and, Spec.runs.go, hq, if_true]
          rw [← hstep]
          refine ih (r + 1) (by omega) (by omega) (some s) _ _ _ hacc ⟨h1, by omega, sp, h3, ?_⟩
          have : r + 1 - s = r - s + 1 := by omega
          rw [this]

/-! ## the runs of `Spec.runs` are the maximal runs -/

/-- a list of runs of `row`, all ending at or before `i`: non-empty weight-constant stretches of present entries,
disjoint and in order, and two touching consecutive runs carry different weights -/
structure RunsOk (weq : W → W → Bool) (row : List (Option W)) (i : Nat) (rs : List (Nat × Nat × W)) : Prop where
  body : ∀ run ∈ rs, 1 ≤ run.2.1 ∧ run.1 + run.2.1 ≤ i
      ∧ ∀ j, run.1 ≤ j → j < run.1 + run.2.1 → ∃ w', row[j]? = some (some w') ∧ weq w' run.2.2 = true
  sorted : List.Pairwise (fun a b => a.1 + a.2.1 ≤ b.1) rs
  sep : ∀ k, ∀ a b, rs[k]? = some a → rs[k + 1]? = some b → a.1 + a.2.1 = b.1 →
      ∃ wb, row[b.1]? = some (some wb) ∧ weq wb a.2.2 = false

theorem RunsOk.nil (weq : W → W → Bool) (row : List (Option W)) (i : Nat) : RunsOk weq row i [] :=
  ⟨by simp, List.Pairwise.nil, by simp⟩

theorem RunsOk.mono {weq : W → W → Bool} {row : List (Option W)} {i i' : Nat} {rs : List (Nat × Nat × W)}
    (h : RunsOk weq row i rs) (hi : i ≤ i') : RunsOk weq row i' rs :=
  ⟨fun run hr => ⟨(h.body run hr).1, Nat.le_trans (h.body run hr).2.1 hi, (h.body run hr).2.2⟩, h.sorted, h.sep⟩

theorem RunsOk.snoc {weq : W → W → Bool} {row : List (Option W)} {i : Nat} {rs : List (Nat × Nat × W)}
    (h : RunsOk weq row i rs) (c : Nat × Nat × W)
    (c1 : 1 ≤ c.2.1) (c2 : c.1 + c.2.1 ≤ i)
    (c3 : ∀ j, c.1 ≤ j → j < c.1 + c.2.1 → ∃ w', row[j]? = some (some w') ∧ weq w' c.2.2 = true)
    (c4 : ∀ a ∈ rs, a.1 + a.2.1 ≤ c.1)
    (c5 : ∀ a, rs.getLast? = some a → a.1 + a.2.1 = c.1 → ∃ wb, row[c.1]? = some (some wb) ∧ weq wb a.2.2 = false) :
    RunsOk weq row i (rs ++ [c]) := by
  refine ⟨?_, ?_, ?_⟩
  · intro run hr
    rcases List.mem_append.mp hr with hr | hr
    · exact h.body run hr
    · have : run = c := by simpa using hr
      subst this
      exact ⟨c1, c2, c3⟩
  · rw [List.pairwise_append]
    refine ⟨h.sorted, List.pairwise_singleton _ _, ?_⟩
    intro a ha b hb
    have : b = c := by simpa using hb
    subst this
    exact c4 a ha
  · intro k a b ha hb hab
    by_cases hk : k + 1 < rs.length
    · rw [List.getElem?_append_left (by omega)] at ha
      rw [List.getElem?_append_left hk] at hb
      exact h.sep k a b ha hb hab
    · by_cases hk2 : k + 1 = rs.length
      · rw [List.getElem?_append_left (by omega)] at ha
        rw [List.getElem?_append_right (by omega)] at hb
        have e : k + 1 - rs.length = 0 := by omega
        rw [e] at hb
        have : b = c := by simpa using hb.symm
        subst this
        refine c5 a ?_ hab
        rw [List.getLast?_eq_getElem?]
        have : rs.length - 1 = k := by omega
        rw [this]; exact ha
      · have : (rs ++ [c])[k + 1]? = none := by
          rw [List.getElem?_eq_none]
          simp; omega
        rw [this] at hb
        exact absurd hb (by simp)

/-- the state of `Spec.runs.go` at index `i` -/
def StInv (weq : W → W → Bool) (row : List (Option W)) (i : Nat) (cur : Option (Nat × Nat × W))
    (acc : List (Nat × Nat × W)) : Prop :=
  RunsOk weq row i acc
  ∧ (∀ j w', j < i → row[j]? = some (some w') →
        (∃ run ∈ acc, run.1 ≤ j ∧ j < run.1 + run.2.1) ∨ (∃ c, cur = some c ∧ c.1 ≤ j ∧ j < c.1 + c.2.1))
  ∧ (match cur with
      | none => ∀ run ∈ acc, run.1 + run.2.1 < i
      | some c => 1 ≤ c.2.1 ∧ c.1 + c.2.1 = i
          ∧ (∀ j, c.1 ≤ j → j < c.1 + c.2.1 → ∃ w', row[j]? = some (some w') ∧ weq w' c.2.2 = true)
          ∧ (∀ a ∈ acc, a.1 + a.2.1 ≤ c.1)
          ∧ (∀ a, acc.getLast? = some a → a.1 + a.2.1 = c.1 →
                ∃ wb, row[c.1]? = some (some wb) ∧ weq wb a.2.2 = false))

/-- what `C17_runs_maximal` says of the final list of runs -/
def RunsFinal (weq : W → W → Bool) (row : List (Option W)) (rs : List (Nat × Nat × W)) : Prop :=
  RunsOk weq row row.length rs
  ∧ (∀ i w', row[i]? = some (some w') → ∃ run ∈ rs, run.1 ≤ i ∧ i < run.1 + run.2.1)

theorem go_final (weq : W → W → Bool) (hrefl : ∀ a, weq a a = true) (row : List (Option W)) :
    ∀ (rest : List (Option W)) (i : Nat) (cur : Option (Nat × Nat × W)) (acc : List (Nat × Nat × W)),
      (∀ j, rest[j]? = row[i + j]?) → i + rest.length = row.length → StInv weq row i cur acc →
      RunsFinal weq row (Spec.runs.go weq rest i cur acc) := by
  intro rest
  induction rest with
  | nil =>
    intro i cur acc hrow hlen ⟨hok, hcov, hcur⟩
    simp only [List.length_nil, Nat.add_zero] at hlen
    subst hlen
    have hlt : ∀ j w', row[j]? = some (some w') → j < row.length := by
      intro j w' hj
      exact (List.getElem?_eq_some_iff.mp hj).1
    cases cur with
    | none =>
      simp only [Spec.runs.go]
      refine ⟨hok, ?_⟩
      intro j w' hj
      rcases hcov j w' (hlt j w' hj) hj with h | ⟨c, hc, _⟩
      · exact h
      · exact absurd hc (by simp)
    | some c =>
      simp only [Spec.runs.go]
      obtain ⟨c1, c2, c3, c4, c5⟩ := hcur
      refine ⟨hok.snoc c c1 (Nat.le_of_eq c2) c3 c4 c5, ?_⟩
      intro j w' hj
      rcases hcov j w' (hlt j w' hj) hj with ⟨run, hr, h⟩ | ⟨c', hc, h⟩
      · exact ⟨run, List.mem_append_left _ hr, h⟩
      · have : c' = c := by simpa using hc.symm
        subst this
        exact ⟨c', by simp, h⟩
  | cons x rest ih =>
    intro i cur acc hrow hlen ⟨hok, hcov, hcur⟩
    have hx : row[i]? = some x := by simpa using (hrow 0).symm
    have hrow' : ∀ j, rest[j]? = row[i + 1 + j]? := by
      intro j
      have := hrow (j + 1)
      simp only [List.getElem?_cons_succ] at this
      rw [this]; congr 1; omega
    have hlen' : i + 1 + rest.length = row.length := by
      simp only [List.length_cons] at hlen; omega
    cases x with
    | none =>
      cases cur with
      | none =>
        simp only [Spec.runs.go]
        refine ih (i + 1) none acc hrow' hlen' ⟨hok.mono (by omega), ?_, ?_⟩
        · intro j w' hj hjw
          by_cases hji : j = i
          · subst hji; rw [hx] at hjw; simp at hjw
          · exact hcov j w' (by omega) hjw
        · intro run hr
          have := hcur run hr
          omega
      | some c =>
        simp only [Spec.runs.go]
        obtain ⟨c1, c2, c3, c4, c5⟩ := hcur
        refine ih (i + 1) none (acc ++ [c]) hrow' hlen'
          ⟨(hok.snoc c c1 (Nat.le_of_eq c2) c3 c4 c5).mono (by omega), ?_, ?_⟩
        · intro j w' hj hjw
          by_cases hji : j = i
          · subst hji; rw [hx] at hjw; simp at hjw
          · rcases hcov j w' (by omega) hjw with ⟨run, hr, h⟩ | ⟨c', hc, h⟩
            · exact Or.inl ⟨run, List.mem_append_left _ hr, h⟩
            · have : c' = c := by simpa using hc.symm
              subst this
              exact Or.inl ⟨c', by simp, h⟩
        · intro run hr
          rcases List.mem_append.mp hr with hr | hr
          · have := c4 run hr
            omega
          · have : run = c := by simpa using hr
            subst this
            omega
    | some w =>
      cases cur with
      | none =>
        simp only [Spec.runs.go]
        refine ih (i + 1) (some (i, 1, w)) acc hrow' hlen' ⟨hok.mono (by omega), ?_, ?_⟩
        · intro j w' hj hjw
          by_cases hji : j = i
          · subst hji
            exact Or.inr ⟨_, rfl, by simp⟩
          · rcases hcov j w' (by omega) hjw with h | ⟨c', hc, _⟩
            · exact Or.inl h
            · exact absurd hc (by simp)
        · refine ⟨Nat.le_refl _, rfl, ?_, ?_, ?_⟩
          · intro j h1 h2
            have : j = i := by simp only at h1 h2; omega
            subst this
            exact ⟨w, hx, hrefl w⟩
          · intro a ha
            have := hcur a ha
            simp only; omega
          · intro a ha hai
            have hmem : a ∈ acc := List.mem_of_getLast? ha
            have := hcur a hmem
            simp only at hai; omega
      | some c =>
        obtain ⟨s, n, w0⟩ := c
        obtain ⟨c1, c2, c3, c4, c5⟩ := hcur
        simp only at c1 c2 c3 c4 c5
        simp only [Spec.runs.go]
        by_cases hq : weq w w0 = true
        · simp only [hq, if_true]
          refine ih (i + 1) (some (s, n + 1, w0)) acc hrow' hlen' ⟨hok.mono (by omega), ?_, ?_⟩
          · intro j w' hj hjw
            by_cases hji : j = i
            · subst hji
              exact Or.inr ⟨_, rfl, by simp only; omega, by simp only; omega⟩
            · rcases hcov j w' (by omega) hjw with h | ⟨c', hc, h⟩
              · exact Or.inl h
              · have : c' = (s, n, w0) := by simpa using hc.symm
                subst this
                simp only at h
                exact Or.inr ⟨_, rfl, by simp only; omega, by simp only; omega⟩
          · refine ⟨by simp only; omega, by simp only; omega, ?_, c4, c5⟩
            intro j h1 h2
            simp only at h1 h2
            by_cases hji : j = i
            · subst hji
              exact ⟨w, hx, hq⟩
            · exact c3 j h1 (by omega)
        · simp only [hq, Bool.false_eq_true, if_false]
          have hq' : weq w w0 = false := by simpa using hq
          have hok' := hok.snoc (s, n, w0) c1 (Nat.le_of_eq c2) c3 c4 c5
          refine ih (i + 1) (some (i, 1, w)) (acc ++ [(s, n, w0)]) hrow' hlen' ⟨hok'.mono (by omega), ?_, ?_⟩
          · intro j w' hj hjw
            by_cases hji : j = i
            · subst hji
              exact Or.inr ⟨_, rfl, by simp⟩
            · rcases hcov j w' (by omega) hjw with ⟨run, hr, h⟩ | ⟨c', hc, h⟩
              · exact Or.inl ⟨run, List.mem_append_left _ hr, h⟩
              · have : c' = (s, n, w0) := by simpa using hc.symm
                subst this
                exact Or.inl ⟨_, by simp, h⟩
          · refine ⟨Nat.le_refl _, rfl, ?_, ?_, ?_⟩
            · intro j h1 h2
              have : j = i := by simp only at h1 h2; omega
              subst this
              exact ⟨w, hx, hrefl w⟩
            · intro a ha
              rcases List.mem_append.mp ha with ha | ha
              · have := c4 a ha
                simp only; omega
              · have : a = (s, n, w0) := by simpa using ha
                subst this
                simp only; omega
            · intro a ha _
              rw [List.getLast?_append] at ha
              have : a = (s, n, w0) := by simpa using ha.symm
              subst this
              exact ⟨w, hx, hq'⟩

theorem runs_final (weq : W → W → Bool) (hrefl : ∀ a, weq a a = true) (row : List (Option W)) :
    RunsFinal weq row (Spec.runs weq row) := by
  unfold Spec.runs
  refine go_final weq hrefl row row 0 none [] (by simp) (by simp) ⟨RunsOk.nil _ _ _, ?_, ?_⟩
  · intro j w' hj; omega
  · simp

/-! ## closed forms -/

/-! ### constants of the row structure -/

theorem highs_eq : rankRange 0 11 true = .ok (List.range' 0 12) := by decide

theorem rankNext_high (h : Nat) (hh : h < 12) : rankNext h = some (h + 1) := by
  have := (C13.rank_next_prev h (by omega)).1
  rw [this]; simp; omega

theorem kickers_eq (h : Nat) (hh : h < 12) :
    rankRange (h + 1) 12 true = .ok (List.range' (h + 1) (12 - h)) := by
  have := (C13.rank_range_run (h + 1) 12 (by omega) (by omega) (by omega)).2
  have e : 12 + 1 - (h + 1) = 12 - h := by omega
  rw [e] at this
  exact this

theorem kickers_from (h : Nat) (hh : h < 13) :
    rankRange h 12 true = .ok (List.range' h (13 - h)) := by
  exact (C13.rank_range_run h 12 hh (by omega) (by omega)).2

/-! ### `rank_pairs` in closed form -/

/-- the suited and offsuit rank pairs reported under the high card `high`, kicker by kicker -/
def rpRow (wt : WText W) (r : HandRange W) (high : Nat) : List (RankPair × W) :=
  (List.range' (high + 1) (12 - high)).flatMap fun kicker =>
    ((rankPairWeight wt r (.suited high kicker) (mkPair ⟨high, 0⟩ ⟨kicker, 0⟩)).map fun p => (RankPair.suited high kicker, p)).toList
    ++ ((rankPairWeight wt r (.ofsuit high kicker) (mkPair ⟨high, 0⟩ ⟨kicker, 1⟩)).map fun p => (RankPair.ofsuit high kicker, p)).toList

/-- the table `rank_pairs()` returns, in the order the loops visit the rank pairs -/
def rpList (wt : WText W) (r : HandRange W) : List (RankPair × W) :=
  ((List.range 13).filterMap fun rank =>
    (rankPairWeight wt r (.pocket rank) (mkPair ⟨rank, 0⟩ ⟨rank, 1⟩)).map fun p => (RankPair.pocket rank, p))
  ++ (List.range' 0 12).flatMap (rpRow wt r)

theorem rankPairs_rows_eq (wt : WText W) (r : HandRange W) (l : List Nat) (hl : ∀ h ∈ l, h < 12) :
    rankPairs.rows wt r l = .ok (l.flatMap (rpRow wt r)) := by
  induction l with
  | nil => simp [rankPairs.rows]
  | cons h tl ih =>
    have hh : h < 12 := hl h (by simp)
    have ih' := ih (fun x hx => hl x (by simp [hx]))
    simp only [rankPairs.rows, rankDeuce, rankNext_high h hh, kickers_eq h hh, ih', List.flatMap_cons, rpRow]

theorem rankPairs_eq (wt : WText W) (r : HandRange W) : rankPairs wt r = .ok (rpList wt r) := by
  have hrows := rankPairs_rows_eq wt r (List.range' 0 12) (by
    intro h hh
    have := List.mem_range'_1.mp hh
    omega)
  simp only [rankPairs, rankAce, rankTrey, C13.rank_range_all, highs_eq, hrows, rpList]

/-! ### `orphan_card_pairs` -/

theorem lookup_remove (m : HandRange W) (c c' : Combo) :
    (HandRange.remove m c).lookup c' = if c' = c then none else m.lookup c' := by
  induction m with
  | nil => simp [HandRange.remove, HandRange.lookup]
  | cons e tl ih =>
    obtain ⟨k, v⟩ := e
    simp only [HandRange.remove] at ih
    by_cases hk : k = c
    · subst hk
      simp only [HandRange.remove, List.filter_cons, ne_eq, not_true_eq_false, decide_false,
        Bool.false_eq_true, if_false, HandRange.lookup, ih]
      by_cases hc : c' = k
      · simp [hc]
      · have : ¬ k = c' := fun e => hc e.symm
        simp [hc, this]
    · simp only [HandRange.remove, List.filter_cons, ne_eq, hk, not_false_eq_true, decide_true, if_true,
        HandRange.lookup, ih]
      by_cases hc : k = c'
      · subst hc; simp [hk]
      · simp [hc]

theorem lookup_foldl_remove (cs : List Combo) (m : HandRange W) (c' : Combo) :
    (cs.foldl (fun m cp => HandRange.remove m cp) m).lookup c' = if c' ∈ cs then none else m.lookup c' := by
  induction cs generalizing m with
  | nil => simp
  | cons c tl ih =>
    simp only [List.foldl_cons, ih, lookup_remove, List.mem_cons]
    by_cases h1 : c' ∈ tl <;> by_cases h2 : c' = c <;> simp [h1, h2]

/-- removing every combo of every rank pair of a table -/
def removeAll (rps : List (RankPair × W)) (m : HandRange W) : HandRange W :=
  rps.foldl (fun m rp => rp.1.combos.foldl (fun m cp => HandRange.remove m cp) m) m

theorem lookup_removeAll (rps : List (RankPair × W)) (m : HandRange W) (c : Combo) :
    (removeAll rps m).lookup c = if (∃ e ∈ rps, c ∈ e.1.combos) then none else m.lookup c := by
  induction rps generalizing m with
  | nil => simp [removeAll]
  | cons e tl ih =>
    simp only [removeAll, List.foldl_cons] at ih ⊢
    rw [ih, lookup_foldl_remove]
    by_cases h1 : ∃ e ∈ tl, c ∈ e.1.combos
    · have : ∃ e' ∈ e :: tl, c ∈ e'.1.combos := by
        obtain ⟨e', he, hc⟩ := h1
        exact ⟨e', List.mem_cons_of_mem _ he, hc⟩
      simp [h1]
    · by_cases h2 : c ∈ e.1.combos
      · have : ∃ e' ∈ e :: tl, c ∈ e'.1.combos := ⟨e, by simp, h2⟩
        simp only [h1, if_false, h2, if_true, this]
      · have : ¬ ∃ e' ∈ e :: tl, c ∈ e'.1.combos := by
          rintro ⟨e', he, hc⟩
          rcases List.mem_cons.mp he with rfl | he
          · exact h2 hc
          · exact h1 ⟨e', he, hc⟩
        simp only [h1, if_false, h2, this]

/-! ### the leftover pass -/

/-- the leftover tokens under the high card `high` -/
def orphRow (orph : HandRange W) (high : Nat) : List (Token W) :=
  (List.range' high (13 - high)).flatMap fun kicker => (List.range 4).flatMap fun hs => (List.range 4).flatMap fun ks =>
    match orph.lookup (mkPair ⟨high, hs⟩ ⟨kicker, ks⟩) with
    | some p => [(⟨.singleCard (mkPair ⟨high, hs⟩ ⟨kicker, ks⟩), p⟩ : Token W)]
    | none => []

def orphToks (orph : HandRange W) : List (Token W) := (List.range 13).flatMap (orphRow orph)

theorem orphanTokens_outer_eq (orph : HandRange W) (l : List Nat) (hl : ∀ h ∈ l, h < 13) :
    orphanTokens.outer orph (List.range 4) l = .ok (l.flatMap (orphRow orph)) := by
  induction l with
  | nil => simp [orphanTokens.outer]
  | cons h tl ih =>
    have hh : h < 13 := hl h (by simp)
    have ih' := ih (fun x hx => hl x (by simp [hx]))
    simp only [orphanTokens.outer, rankDeuce, kickers_from h hh, ih', List.flatMap_cons, orphRow]
    rfl

theorem orphanTokens_eq (orph : HandRange W) : orphanTokens orph = .ok (orphToks orph) := by
  simp only [orphanTokens, C13.rank_range_all, C13.suit_range_all, orphToks]
  exact orphanTokens_outer_eq orph (List.range 13) (fun h hh => List.mem_range.mp hh)

theorem orphToks_congr (o₁ o₂ : HandRange W) (h : ∀ c, o₁.lookup c = o₂.lookup c) : orphToks o₁ = orphToks o₂ := by
  have : HandRange.lookup o₁ = HandRange.lookup o₂ := funext h
  have e : orphRow o₁ = orphRow o₂ := by
    funext high
    simp only [orphRow, this]
  simp only [orphToks, e]

theorem orphToks_kind (o : HandRange W) (t : Token W) (ht : t ∈ orphToks o) :
    ∃ c p, t = ⟨.singleCard c, p⟩ ∧ o.lookup c = some p := by
  simp only [orphToks, orphRow, List.mem_flatMap] at ht
  obtain ⟨h, _, k, _, hs, _, ks, _, ht⟩ := ht
  split at ht
  · rename_i p hp
    exact ⟨_, p, by simpa using ht, hp⟩
  · simp at ht

/-! ## `Display for HandRange` in closed form -/

/-- **the `rowTokens` / `runs` correspondence**: one token per maximal run, in row order -/
theorem rowTokens_runs (wt : WText W) (rps : List (RankPair × W)) (first : Nat) (hf : first ≤ 12) (mk : Nat → RankPair) :
    rowTokens wt rps first 12 mk (List.range' first (13 - first))
      = .ok ((Spec.runs wt.eq ((List.range' first (13 - first)).map fun k => rpLookup rps (mk k))).map (runTok first mk)) := by
  rw [rowTokens_eq]
  have := loop_runs wt first mk (fun rank => rpLookup rps (mk rank)) (13 - first) first (by omega) (Nat.le_refl _)
    none [] none [] rfl rfl
  rw [Nat.sub_self] at this
  exact this

/-- the tokens of one row of the table `rps` -/
def rowRuns (wt : WText W) (rps : List (RankPair × W)) (first : Nat) (mk : Nat → RankPair) : List (Token W) :=
  (Spec.runs wt.eq ((List.range' first (13 - first)).map fun k => rpLookup rps (mk k))).map (runTok first mk)

/-- the suited row then the offsuit row of the high card `high` -/
def highToks (wt : WText W) (rps : List (RankPair × W)) (high : Nat) : List (Token W) :=
  rowRuns wt rps (high + 1) (.suited high) ++ rowRuns wt rps (high + 1) (.ofsuit high)

/-- the leftovers: the range minus every combo of every reported rank pair -/
def orphList (wt : WText W) (r : HandRange W) : HandRange W := removeAll (rpList wt r) r

theorem orphans_eq (wt : WText W) (r : HandRange W) : orphans wt r = .ok (orphList wt r) := by
  simp only [orphans, rankPairs_eq, orphList, removeAll]

theorem lookup_orphList (wt : WText W) (r : HandRange W) (c : Combo) :
    (orphList wt r).lookup c = if (∃ e ∈ rpList wt r, c ∈ e.1.combos) then none else r.lookup c :=
  lookup_removeAll _ _ _

theorem showRangeTokens_rows_eq (wt : WText W) (rps : List (RankPair × W)) (l : List Nat) (hl : ∀ h ∈ l, h < 12) :
    showRangeTokens.rows wt rps l = .ok (l.flatMap (highToks wt rps)) := by
  induction l with
  | nil => simp [showRangeTokens.rows]
  | cons h tl ih =>
    have hh : h < 12 := hl h (by simp)
    have ih' := ih (fun x hx => hl x (by simp [hx]))
    have e : 12 - h = 13 - (h + 1) := by omega
    have r1 := rowTokens_runs wt rps (h + 1) (by omega) (.suited h)
    have r2 := rowTokens_runs wt rps (h + 1) (by omega) (.ofsuit h)
    simp only [showRangeTokens.rows, rankNext_high h hh, rankDeuce, kickers_eq h hh, r1, r2, ih',
      List.flatMap_cons, highToks, rowRuns, e]

/-- **closed form of `showRangeTokens`**: pocket runs, then per high card the suited and the offsuit runs, then the
leftover single combos; never an error -/
theorem showRangeTokens_eq (wt : WText W) (r : HandRange W) :
    showRangeTokens wt r
      = .ok (rowRuns wt (rpList wt r) 0 .pocket ++ (List.range' 0 12).flatMap (highToks wt (rpList wt r))
              ++ orphToks (orphList wt r)) := by
  have hrows := showRangeTokens_rows_eq wt (rpList wt r) (List.range' 0 12) (by
    intro h hh
    have := List.mem_range'_1.mp hh
    omega)
  have hp := rowTokens_runs wt (rpList wt r) 0 (by omega) .pocket
  simp only [Nat.sub_zero] at hp
  simp only [showRangeTokens, rankPairs_eq, orphans_eq, C13.rank_range_all, rankAce, rankTrey, rankDeuce, highs_eq,
    List.range_eq_range', hp, hrows, orphanTokens_eq, rowRuns, Nat.sub_zero]

theorem showRange_eq (wt : WText W) (r : HandRange W) :
    showRange wt r
      = .ok (joinCommas ((rowRuns wt (rpList wt r) 0 .pocket ++ (List.range' 0 12).flatMap (highToks wt (rpList wt r))
              ++ orphToks (orphList wt r)).map (Token.show wt))) := by
  simp only [showRange, showRangeTokens_eq]

/-! ### the formatter reads the range only through `lookup` -/

theorem rankPairWeight_congr (wt : WText W) (r₁ r₂ : HandRange W) (h : ∀ c, r₁.lookup c = r₂.lookup c) :
    rankPairWeight wt r₁ = rankPairWeight wt r₂ := by
  funext rp probe
  simp only [rankPairWeight, h]

theorem rpList_congr (wt : WText W) (r₁ r₂ : HandRange W) (h : ∀ c, r₁.lookup c = r₂.lookup c) :
    rpList wt r₁ = rpList wt r₂ := by
  have e := rankPairWeight_congr wt r₁ r₂ h
  have e2 : rpRow wt r₁ = rpRow wt r₂ := by
    funext high
    simp only [rpRow, e]
  simp only [rpList, e, e2]

theorem orphList_congr (wt : WText W) (r₁ r₂ : HandRange W) (h : ∀ c, r₁.lookup c = r₂.lookup c) (c : Combo) :
    (orphList wt r₁).lookup c = (orphList wt r₂).lookup c := by
  rw [lookup_orphList, lookup_orphList, rpList_congr wt r₁ r₂ h, h]

/-! ### the row a token belongs to -/

theorem runTok_kind (first : Nat) (mk : Nat → RankPair) (run : Nat × Nat × W) :
    ∃ k e, (runTok first mk run).kind = .bottomClosed (mk k) ∨ (runTok first mk run).kind = .singleRank (mk k)
      ∨ (runTok first mk run).kind = .doubleClosed (mk k) e := by
  obtain ⟨s, n, w⟩ := run
  simp only [runTok]
  split
  · exact ⟨_, 0, Or.inl rfl⟩
  · split
    · exact ⟨_, 0, Or.inr (Or.inl rfl)⟩
    · exact ⟨_, _, Or.inr (Or.inr rfl)⟩

theorem rowRuns_kind (wt : WText W) (rps : List (RankPair × W)) (first : Nat) (mk : Nat → RankPair) (t : Token W)
    (ht : t ∈ rowRuns wt rps first mk) :
    ∃ k e, t.kind = .bottomClosed (mk k) ∨ t.kind = .singleRank (mk k) ∨ t.kind = .doubleClosed (mk k) e := by
  simp only [rowRuns, List.mem_map] at ht
  obtain ⟨run, _, rfl⟩ := ht
  exact runTok_kind first mk run

/-! ### looking a rank pair up in the table of `rank_pairs()` -/

theorem rpLookup_append (l₁ l₂ : List (RankPair × W)) (rp : RankPair) :
    rpLookup (l₁ ++ l₂) rp = (rpLookup l₁ rp).or (rpLookup l₂ rp) := by
  induction l₁ with
  | nil => simp [rpLookup]
  | cons e tl ih =>
    obtain ⟨k, v⟩ := e
    simp only [List.cons_append, rpLookup, ih]
    split <;> simp

theorem rpLookup_optList (o : Option W) (key rp : RankPair) :
    rpLookup ((o.map fun p => (key, p)).toList) rp = if key = rp then o else none := by
  cases o <;> simp [rpLookup]

theorem rpLookup_filterMap (l : List Nat) (f : Nat → Option W) (key : Nat → RankPair) (rp : RankPair) (k : Nat)
    (hkey : ∀ x, key x = rp ↔ x = k) :
    rpLookup (l.filterMap fun x => (f x).map fun p => (key x, p)) rp = if k ∈ l then f k else none := by
  induction l with
  | nil => simp [rpLookup]
  | cons x tl ih =>
    simp only [List.filterMap_cons]
    cases hfx : f x with
    | none =>
      simp only [Option.map_none, ih, List.mem_cons]
      by_cases hx : k = x
      · subst hx; simp [hfx]
      · simp [hx]
    | some p =>
      simp only [Option.map_some, rpLookup, ih, List.mem_cons, hkey]
      by_cases hx : x = k
      · subst hx; simp [hfx]
      · have : ¬ k = x := fun e => hx e.symm
        simp [hx, this]

theorem rpLookup_filterMap_none (l : List Nat) (f : Nat → Option W) (key : Nat → RankPair) (rp : RankPair)
    (hkey : ∀ x, key x ≠ rp) :
    rpLookup (l.filterMap fun x => (f x).map fun p => (key x, p)) rp = none := by
  induction l with
  | nil => simp [rpLookup]
  | cons x tl ih =>
    simp only [List.filterMap_cons]
    cases hfx : f x with
    | none => simpa using ih
    | some p => simp [rpLookup, ih, hkey]

theorem rpLookup_flatMap (l : List Nat) (F : Nat → List (RankPair × W)) (rp : RankPair) (h0 : Nat)
    (hF : ∀ h, h ≠ h0 → rpLookup (F h) rp = none) :
    rpLookup (l.flatMap F) rp = if h0 ∈ l then rpLookup (F h0) rp else none := by
  induction l with
  | nil => simp [rpLookup]
  | cons x tl ih =>
    simp only [List.flatMap_cons, rpLookup_append, ih, List.mem_cons]
    by_cases hx : x = h0
    · subst hx
      cases rpLookup (F x) rp <;> simp
    · have : ¬ h0 = x := fun e => hx e.symm
      simp [hF x hx, this]

theorem rpLookup_rpRow_suited (wt : WText W) (r : HandRange W) (h h' k : Nat) :
    rpLookup (rpRow wt r h) (.suited h' k)
      = if h = h' ∧ h < k ∧ k < 13 then rankPairWeight wt r (.suited h k) (mkPair ⟨h, 0⟩ ⟨k, 0⟩) else none := by
  unfold rpRow
  rw [rpLookup_flatMap _ _ _ k]
  · simp only [rpLookup_append, rpLookup_optList, List.mem_range'_1, RankPair.suited.injEq, reduceCtorEq, if_false,
      Option.or_none]
    by_cases hh : h = h'
    · subst hh
      by_cases hk : h + 1 ≤ k ∧ k < h + 1 + (12 - h)
      · have : h < k ∧ k < 13 := by omega
        simp [hk, this]
      · have : ¬ (h < k ∧ k < 13) := by omega
        simp [hk, this]
    · simp [hh]
  · intro k' hk'
    simp only [rpLookup_append, rpLookup_optList, RankPair.suited.injEq, reduceCtorEq, if_false, Option.or_none]
    simp [hk']

theorem rpLookup_rpRow_ofsuit (wt : WText W) (r : HandRange W) (h h' k : Nat) :
    rpLookup (rpRow wt r h) (.ofsuit h' k)
      = if h = h' ∧ h < k ∧ k < 13 then rankPairWeight wt r (.ofsuit h k) (mkPair ⟨h, 0⟩ ⟨k, 1⟩) else none := by
  unfold rpRow
  rw [rpLookup_flatMap _ _ _ k]
  · simp only [rpLookup_append, rpLookup_optList, List.mem_range'_1, RankPair.ofsuit.injEq, reduceCtorEq, if_false,
      Option.none_or]
    by_cases hh : h = h'
    · subst hh
      by_cases hk : h + 1 ≤ k ∧ k < h + 1 + (12 - h)
      · have : h < k ∧ k < 13 := by omega
        simp [hk, this]
      · have : ¬ (h < k ∧ k < 13) := by omega
        simp [hk, this]
    · simp [hh]
  · intro k' hk'
    simp only [rpLookup_append, rpLookup_optList, RankPair.ofsuit.injEq, reduceCtorEq, if_false, Option.none_or]
    simp [hk']

theorem rpLookup_rpRow_pocket (wt : WText W) (r : HandRange W) (h k : Nat) :
    rpLookup (rpRow wt r h) (.pocket k) = none := by
  unfold rpRow
  rw [rpLookup_flatMap _ _ _ 0]
  · simp
  · intro k' _
    simp [rpLookup_append, rpLookup_optList]

/-- a pocket pair is in the table exactly when `rank_pairs` reports it -/
theorem rpLookup_rpList_pocket (wt : WText W) (r : HandRange W) (k : Nat) :
    rpLookup (rpList wt r) (.pocket k)
      = if k < 13 then rankPairWeight wt r (.pocket k) (mkPair ⟨k, 0⟩ ⟨k, 1⟩) else none := by
  unfold rpList
  rw [rpLookup_append, rpLookup_filterMap _ _ RankPair.pocket _ k (by intro x; simp),
    rpLookup_flatMap _ _ _ 0 (by intro h _; exact rpLookup_rpRow_pocket wt r h k)]
  simp [rpLookup_rpRow_pocket]

theorem rpLookup_rpList_suited (wt : WText W) (r : HandRange W) (h k : Nat) :
    rpLookup (rpList wt r) (.suited h k)
      = if h < k ∧ k < 13 then rankPairWeight wt r (.suited h k) (mkPair ⟨h, 0⟩ ⟨k, 0⟩) else none := by
  unfold rpList
  rw [rpLookup_append, rpLookup_filterMap_none _ _ RankPair.pocket _ (by intro x; simp),
    rpLookup_flatMap _ _ _ h (by intro h' hh'; rw [rpLookup_rpRow_suited]; simp [hh'])]
  simp only [Option.none_or, rpLookup_rpRow_suited, List.mem_range'_1, true_and]
  by_cases hk : h < k ∧ k < 13
  · have : 0 ≤ h ∧ h < 0 + 12 := by omega
    simp [hk, this]
  · simp [hk]

theorem rpLookup_rpList_ofsuit (wt : WText W) (r : HandRange W) (h k : Nat) :
    rpLookup (rpList wt r) (.ofsuit h k)
      = if h < k ∧ k < 13 then rankPairWeight wt r (.ofsuit h k) (mkPair ⟨h, 0⟩ ⟨k, 1⟩) else none := by
  unfold rpList
  rw [rpLookup_append, rpLookup_filterMap_none _ _ RankPair.pocket _ (by intro x; simp),
    rpLookup_flatMap _ _ _ h (by intro h' hh'; rw [rpLookup_rpRow_ofsuit]; simp [hh'])]
  simp only [Option.none_or, rpLookup_rpRow_ofsuit, List.mem_range'_1, true_and]
  by_cases hk : h < k ∧ k < 13
  · have : 0 ≤ h ∧ h < 0 + 12 := by omega
    simp [hk, this]
  · simp [hk]

end EspadaVerif.FormatFacts
