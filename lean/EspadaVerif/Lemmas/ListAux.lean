/-
Lemmas/ListAux: combinatorial helper lemmas for C01 — `Spec.choose`, `Spec.minList`, `Spec.class5`,
`Kernel.ascents`, `Kernel.fiveEq`.
-/
import EspadaVerif.Kernel.Checkers

namespace EspadaVerif.Lemmas
open EspadaVerif Spec Kernel

theorem choose_map {α β : Type} (f : α → β) (k : Nat) (l : List α) :
    choose k (l.map f) = (choose k l).map (List.map f) := by
  sorry

theorem choose_filter {α : Type} (p : α → Bool) (k : Nat) (l : List α) :
    (choose k l).filter (fun s => s.all p) = choose k (l.filter p) := by
  sorry

theorem sublist_of_mem_choose {α : Type} {k : Nat} {l s : List α} (h : s ∈ choose k l) :
    s.Sublist l ∧ s.length = k := by
  sorry

theorem choose_ne_nil {α : Type} (k : Nat) (l : List α) (h : k ≤ l.length) : choose k l ≠ [] := by
  sorry

theorem minList_le_of_mem {l : List Nat} {x : Nat} (h : x ∈ l) : minList l ≤ x := by
  sorry

theorem minList_mem_or (l : List Nat) : minList l = 7463 ∨ minList l ∈ l := by
  sorry

theorem minList_eq_of_forall {l : List Nat} {v : Nat} (hm : v ∈ l) (hle : ∀ x ∈ l, v ≤ x) (hv : v ≤ 7463) :
    minList l = v := by
  sorry

/-- the best class does not depend on the order in which the cards are presented -/
theorem best_perm {X Y : List (Nat × Nat)} (h : X.Perm Y) : best X = best Y := by
  sorry

theorem allSameSuit_iff (S : List (Nat × Nat)) :
    allSameSuit S = true ↔ ∀ x ∈ S, ∀ y ∈ S, x.2 = y.2 := by
  sorry

theorem class5_of_sorted (S : List (Nat × Nat)) (hl : S.length = 5) (hs : (S.map (·.1)).Pairwise (· ≤ ·)) :
    class5 S = if allSameSuit S then sclassL (S.map (·.1)) else uclassL (S.map (·.1)) := by
  sorry

theorem ascents_bound {R T : List Nat} (hR : R.Pairwise (· ≤ ·)) (hsub : T.Sublist R) (hT : T.Pairwise (· < ·)) :
    T.length ≤ ascents R + 1 := by
  sorry

theorem fiveEq_false {R : List Nat} (hl : R.length = 7) (hs : R.Pairwise (· ≤ ·)) (hc : ∀ r, R.count r ≤ 4) :
    fiveEq R = false := by
  sorry

end EspadaVerif.Lemmas
