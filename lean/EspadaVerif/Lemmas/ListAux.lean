/-
Lemmas/ListAux: combinatorial helper lemmas for C01 — `Spec.choose`, `Spec.minList`, `Spec.class5`,
`Kernel.ascents`, `Kernel.fiveEq`.
-/
import EspadaVerif.Kernel.Checkers

namespace EspadaVerif.Lemmas
open EspadaVerif Spec Kernel

theorem choose_map {α β : Type} (f : α → β) (k : Nat) (l : List α) :
    choose k (l.map f) = (choose k l).map (List.map f) := by
  induction l generalizing k with
  | nil => cases k <;> simp [choose]
  | cons x xs ih =>
    cases k with
    | zero => simp [choose]
    | succ k => simp [choose, ih, Function.comp_def]

theorem choose_filter {α : Type} (p : α → Bool) (k : Nat) (l : List α) :
    (choose k l).filter (fun s => s.all p) = choose k (l.filter p) := by
  induction l generalizing k with
  | nil => cases k <;> simp [choose]
  | cons x xs ih =>
    cases k with
    | zero => simp [choose]
    | succ k =>
      by_cases hx : p x = true
      · simp [choose, List.filter_map, Function.comp_def, hx, ih]
      · simp [choose, List.filter_map, Function.comp_def, hx, ih]

theorem sublist_of_mem_choose {α : Type} {k : Nat} {l s : List α} (h : s ∈ choose k l) :
    s.Sublist l ∧ s.length = k := by
  induction l generalizing k s with
  | nil => cases k <;> simp_all [choose]
  | cons x xs ih =>
    cases k with
    | zero => simp_all [choose]
    | succ k =>
      simp only [choose, List.mem_append, List.mem_map] at h
      rcases h with h | ⟨t, ht, rfl⟩
      · have := ih h
        exact ⟨this.1.cons _, this.2⟩
      · have := ih ht
        exact ⟨this.1.cons_cons _, by simp [this.2]⟩

theorem choose_ne_nil {α : Type} (k : Nat) (l : List α) (h : k ≤ l.length) : choose k l ≠ [] := by
  induction l generalizing k with
  | nil => cases k <;> simp_all [choose]
  | cons x xs ih =>
    cases k with
    | zero => simp [choose]
    | succ k =>
      simp only [choose]
      intro hc
      have := List.append_eq_nil_iff.mp hc
      have h2 := this.2
      simp at h2
      exact ih k (by simp at h; omega) h2

theorem foldl_min_le_init (l : List Nat) (a : Nat) : l.foldl min a ≤ a := by
  induction l generalizing a with
  | nil => simp
  | cons x xs ih => simp only [List.foldl_cons]; exact Nat.le_trans (ih _) (Nat.min_le_left _ _)

theorem foldl_min_le_of_mem {l : List Nat} {x : Nat} (a : Nat) (h : x ∈ l) : l.foldl min a ≤ x := by
  induction l generalizing a with
  | nil => simp at h
  | cons y ys ih =>
    simp only [List.foldl_cons]
    rcases List.mem_cons.mp h with rfl | h
    · exact Nat.le_trans (foldl_min_le_init _ _) (Nat.min_le_right _ _)
    · exact ih _ h

theorem foldl_min_mem_or (l : List Nat) (a : Nat) : l.foldl min a = a ∨ l.foldl min a ∈ l := by
  induction l generalizing a with
  | nil => simp
  | cons y ys ih =>
    simp only [List.foldl_cons]
    rcases ih (min a y) with h | h
    · rw [h]
      rcases Nat.le_total a y with hay | hay
      · left; exact Nat.min_eq_left hay
      · right; rw [Nat.min_eq_right hay]; simp
    · right; exact List.mem_cons_of_mem _ h

theorem minList_le_of_mem {l : List Nat} {x : Nat} (h : x ∈ l) : minList l ≤ x :=
  foldl_min_le_of_mem _ h

theorem minList_mem_or (l : List Nat) : minList l = 7463 ∨ minList l ∈ l :=
  foldl_min_mem_or l 7463

theorem minList_eq_of_forall {l : List Nat} {v : Nat} (hm : v ∈ l) (hle : ∀ x ∈ l, v ≤ x) (hv : v ≤ 7463) :
    minList l = v := by
  apply Nat.le_antisymm (minList_le_of_mem hm)
  rcases minList_mem_or l with h | h
  · rw [h]; exact hv
  · exact hle _ h

theorem allSameSuit_iff (S : List (Nat × Nat)) :
    allSameSuit S = true ↔ ∀ x ∈ S, ∀ y ∈ S, x.2 = y.2 := by
  cases S with
  | nil => simp [allSameSuit]
  | cons c rest =>
    obtain ⟨r, s⟩ := c
    simp only [allSameSuit, List.all_eq_true, beq_iff_eq]
    constructor
    · intro h x hx y hy
      have hx' : x.2 = s := by
        rcases List.mem_cons.mp hx with rfl | hx
        · rfl
        · exact h x hx
      have hy' : y.2 = s := by
        rcases List.mem_cons.mp hy with rfl | hy
        · rfl
        · exact h y hy
      rw [hx', hy']
    · intro h x hx
      exact h x (List.mem_cons_of_mem _ hx) (r, s) (List.mem_cons_self)

theorem sortRanks_of_sorted {l : List Nat} (h : l.Pairwise (· ≤ ·)) : sortRanks l = l := by
  unfold sortRanks
  apply List.mergeSort_of_pairwise
  simpa using h

theorem class5_of_sorted (S : List (Nat × Nat)) (hl : S.length = 5) (hs : (S.map (·.1)).Pairwise (· ≤ ·)) :
    class5 S = if allSameSuit S then sclassL (S.map (·.1)) else uclassL (S.map (·.1)) := by
  unfold class5
  rw [sortRanks_of_sorted hs]
  match S, hl with
  | [a, b, c, d, e], _ => simp [sclassL, uclassL]

theorem mem_choose_of_sublist {α : Type} {l s : List α} (h : s.Sublist l) : s ∈ choose s.length l := by
  induction h with
  | slnil => simp [choose]
  | cons a h ih =>
    rename_i s l
    cases s with
    | nil => simp [choose]
    | cons y ys =>
      simp only [List.length_cons, choose, List.mem_append]
      left; simpa using ih
  | cons_cons a h ih =>
    simp only [List.length_cons, choose, List.mem_append, List.mem_map]
    right; exact ⟨_, ih, rfl⟩

theorem mem_choose_iff {α : Type} {k : Nat} {l s : List α} :
    s ∈ choose k l ↔ s.Sublist l ∧ s.length = k :=
  ⟨sublist_of_mem_choose, fun ⟨h, hk⟩ => hk ▸ mem_choose_of_sublist h⟩

theorem sortRanks_perm {l l' : List Nat} (h : l.Perm l') : sortRanks l = sortRanks l' := by
  unfold sortRanks
  have tr : ∀ a b c : Nat, decide (a ≤ b) = true → decide (b ≤ c) = true → decide (a ≤ c) = true := by
    intro a b c; simp; omega
  have tot : ∀ a b : Nat, (decide (a ≤ b) || decide (b ≤ a)) = true := by
    intro a b; simp; omega
  apply List.Perm.eq_of_pairwise (le := fun a b : Nat => decide (a ≤ b) = true)
  · intro a b _ _; simp; omega
  · exact List.pairwise_mergeSort tr tot l
  · exact List.pairwise_mergeSort tr tot l'
  · exact (List.mergeSort_perm l _).trans (h.trans (List.mergeSort_perm l' _).symm)

theorem allSameSuit_perm {S S' : List (Nat × Nat)} (h : S.Perm S') : allSameSuit S = allSameSuit S' := by
  rw [Bool.eq_iff_iff, allSameSuit_iff, allSameSuit_iff]
  constructor
  · intro H x hx y hy; exact H x (h.mem_iff.mpr hx) y (h.mem_iff.mpr hy)
  · intro H x hx y hy; exact H x (h.mem_iff.mp hx) y (h.mem_iff.mp hy)

theorem class5_perm {S S' : List (Nat × Nat)} (h : S.Perm S') : class5 S = class5 S' := by
  unfold class5
  rw [sortRanks_perm (h.map (·.1)), allSameSuit_perm h]

theorem minList_congr {l l' : List Nat} (h : ∀ v, v ∈ l ↔ v ∈ l') : minList l = minList l' := by
  have key : ∀ {l l' : List Nat}, (∀ v, v ∈ l → v ∈ l') → minList l' ≤ minList l := by
    intro l l' h
    rcases minList_mem_or l with h1 | h1
    · rw [h1]; exact foldl_min_le_init _ _
    · exact minList_le_of_mem (h _ h1)
  exact Nat.le_antisymm (key fun v => (h v).mpr) (key fun v => (h v).mp)

theorem mem_classes_of_perm {X Y : List (Nat × Nat)} (h : X.Perm Y) (v : Nat)
    (hv : v ∈ (choose 5 X).map class5) : v ∈ (choose 5 Y).map class5 := by
  obtain ⟨S, hS, rfl⟩ := List.mem_map.mp hv
  obtain ⟨hsub, hlen⟩ := sublist_of_mem_choose hS
  obtain ⟨S', hp, hsub'⟩ := List.exists_perm_sublist hsub h
  exact List.mem_map.mpr ⟨S', mem_choose_iff.mpr ⟨hsub', by rw [hp.length_eq, hlen]⟩, class5_perm hp⟩

/-- the best class does not depend on the order in which the cards are presented -/
theorem best_perm {X Y : List (Nat × Nat)} (h : X.Perm Y) : best X = best Y := by
  unfold best
  exact minList_congr fun v => ⟨mem_classes_of_perm h v, mem_classes_of_perm h.symm v⟩

theorem ascents_le_cons (a : Nat) (R : List Nat) : ascents R ≤ ascents (a :: R) := by
  cases R with
  | nil => simp [ascents]
  | cons b t => simp only [ascents]; omega

theorem ascents_bound {R T : List Nat} (hR : R.Pairwise (· ≤ ·)) (hsub : T.Sublist R) (hT : T.Pairwise (· < ·)) :
    T.length ≤ ascents R + 1 := by
  induction R generalizing T with
  | nil => simp_all
  | cons a R' ih =>
    have hR' := List.pairwise_cons.mp hR
    cases hsub with
    | cons _ h =>
      exact Nat.le_trans (ih hR'.2 h hT) (Nat.add_le_add_right (ascents_le_cons a R') 1)
    | cons_cons _ h =>
      rename_i T'
      have hT' := List.pairwise_cons.mp hT
      cases R' with
      | nil => simp_all
      | cons b R'' =>
        have hab : a ≤ b := hR'.1 b (by simp)
        by_cases hlt : a < b
        · have := ih hR'.2 h hT'.2
          simp only [ascents, hlt, if_true, List.length_cons] at this ⊢
          omega
        · have hba : a = b := by omega
          subst hba
          have hsub2 : (a :: T').Sublist (a :: R'') := by
            cases h with
            | cons _ h2 => exact h2.cons_cons a
            | cons_cons _ h2 =>
              have := hT'.1 a (by simp)
              omega
          have := ih hR'.2 hsub2 hT
          simp only [ascents, hlt, if_false] at this ⊢
          omega

theorem fiveEq_false {R : List Nat} (hl : R.length = 7) (hs : R.Pairwise (· ≤ ·)) (hc : ∀ r, R.count r ≤ 4) :
    fiveEq R = false := by
  match R, hl with
  | [a, b, c, d, e, f, g], _ =>
    have h1 := hc a
    have h2 := hc b
    have h3 := hc c
    simp at hs
    obtain ⟨⟨hab, -⟩, ⟨hbc, -⟩, ⟨hcd, -⟩, ⟨hde, -⟩, ⟨hef, -⟩, hfg⟩ := hs
    simp only [fiveEq, Bool.or_eq_false_iff, beq_eq_false_iff_ne]
    refine ⟨⟨?_, ?_⟩, ?_⟩
    · intro h
      have : b = a := by omega
      have : c = a := by omega
      have : d = a := by omega
      subst_vars
      simp [List.count_cons] at h1 <;> omega
    · intro h
      have : c = b := by omega
      have : d = b := by omega
      have : e = b := by omega
      subst_vars
      simp [List.count_cons] at h2 <;> omega
    · intro h
      have : d = c := by omega
      have : e = c := by omega
      have : f = c := by omega
      subst_vars
      simp [List.count_cons] at h3
      omega

end EspadaVerif.Lemmas
