/-
Lemmas/IterDefs: the vocabulary of C02 (well-formed input, scopes, the evaluator under test, the
showdown a spec deal stands for).  Stated here so that the helper lemmas and `Props/C02.lean` share it.
-/
import EspadaVerif.Model.Iter
import EspadaVerif.Spec.Deals
import EspadaVerif.Props.C03
import EspadaVerif.Lemmas.IterPositions

namespace EspadaVerif.C02
open EspadaVerif Spec

variable {W : Type}

/-- proper input: a flop of three distinct valid cards; every entry is a combo of two valid cards stored
in canonical order (first card orders first, so they differ); a player's list (the iteration of a
hash map keyed by combos) has no duplicate combo.  Lists may be empty and of any length. -/
structure WfInput (flop : List Card) (ranges : List (List (Combo × W))) : Prop where
  flop_len : flop.length = 3
  flop_nodup : flop.Nodup
  flop_valid : ∀ c ∈ flop, c.valid = true
  combos : ∀ es ∈ ranges, ∀ e ∈ es, e.1.fst.valid = true ∧ e.1.snd.valid = true ∧ Card.lt e.1.fst e.1.snd = true
  nodup : ∀ es ∈ ranges, (es.map (·.1)).Nodup

structure ValidScope (a b : Nat × Nat) : Prop where
  from_valid : validPos a = true
  to_valid : validPos b = true
  ordered : posLe a b = true

/-- the evaluator for a three-card flop, scoped to `[a, b)` -/
def mkEvaluator (flop : List Card) (ranges : List (List (Combo × W))) (a b : Nat × Nat) : Evaluator W :=
  { board := flop.map some ++ [none, none], ranges := ranges,
    turnFrom := a.1, riverFrom := a.2, turnTo := b.1, riverTo := b.2 }

/-- the specification sees cards as codes -/
def specEntries (ranges : List (List (Combo × W))) : List (List (Nat × Nat × W)) :=
  ranges.map fun es => es.map fun e => (e.1.fst.code, e.1.snd.code, e.2)

/-- the showdown a deal stands for: the flop in the given order, then turn and river; the chosen combos in
player order; the product of their weights taken left to right from `one` -/
def showdownOfDeal (ops : WOps W) (flop : List Card) (d : Deal W) : Res (Option (Showdown W)) :=
  showdownNew (d.choice.map fun c => (⟨Card.ofCode c.1, Card.ofCode c.2.1⟩ : Combo))
    (flop ++ [Card.ofCode d.turn, Card.ofCode d.river])
    (d.choice.foldl (fun p c => ops.mul p c.2.2) ops.one)

end EspadaVerif.C02
