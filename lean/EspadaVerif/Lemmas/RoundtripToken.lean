/-
Lemmas/RoundtripToken: the text of a well-formed token (`TokenOk`) followed by a weight suffix parses back to that
token (core of C06, token part), and such texts contain neither a space nor a comma.
-/
import EspadaVerif.Lemmas.TokenFacts
import EspadaVerif.Lemmas.RankPairFacts

namespace EspadaVerif.RoundtripToken
open EspadaVerif TextDefs TokenFacts

variable {W : Type}

/-! ### the cascade -/

theorem go_next (s : Bytes) (b : Bytes → Branch W) (bs : List (Bytes → Branch W)) (h : b s = .next) :
    parseToken.go s (b :: bs) = parseToken.go s bs := by
  simp only [parseToken.go, h]

theorem go_hit (s : Bytes) (b : Bytes → Branch W) (bs : List (Bytes → Branch W)) (t : Token W)
    (h : b s = .hit t) : parseToken.go s (b :: bs) = .ok t := by
  simp only [parseToken.go, h]

/-! ### weight suffixes -/

theorem suffix_cases (suffix : Bytes) (h : isWeightSuffix suffix = true) :
    suffix = [] ∨ ∃ w, suffix = 58 :: w ∧ isWeightText w = true := (isWeightSuffix_iff suffix).mp h

theorem suffix_head_ne (suffix : Bytes) (h : isWeightSuffix suffix = true) (x : Nat) (hx : x ≠ 58) :
    suffix[0]? ≠ some x := by
  rcases suffix_cases suffix h with rfl | ⟨w, rfl, _⟩
  · simp
  · simp; exact fun e => hx e.symm

theorem suffix_head_so (suffix : Bytes) (h : isWeightSuffix suffix = true) (x : Nat) (hx : suffix[0]? = some x) :
    isSoByte x = false := by
  rcases suffix_cases suffix h with rfl | ⟨w, rfl, _⟩
  · simp at hx
  · simp at hx; subst hx; decide

theorem not_weightSuffix_cons (x : Nat) (hx : x ≠ 58) (rest : Bytes) : isWeightSuffix (x :: rest) = false := by
  cases h : isWeightSuffix (x :: rest) with
  | false => rfl
  | true =>
    rcases suffix_cases _ h with h' | ⟨w, h', _⟩
    · cases h'
    · cases h'; exact absurd rfl hx

/-! ### rank letters and suit letters are different -/

theorem not_rank_and_suit (b r s : Nat) (hr : IsRank b r) (hs : IsSuit b s) : False := by
  have key : ∀ b ∈ List.range 128, ((rankOfChar b).isSome && (suitOfChar b).isSome) = false := by decide +kernel
  have := key b (List.mem_range.mpr hr.1)
  rw [hr.2, hs.2] at this
  cases this

/-! ### when a recogniser fails -/

theorem reDoublePocket_false3 (s : Bytes) (h : s[2]? ≠ some 45) : reDoublePocket s = false := by
  cases hh : reDoublePocket s with
  | false => rfl
  | true =>
    obtain ⟨a, b, c, d, rest, ra, rb, rc, rd, rfl, _⟩ := reDoublePocket_shape s hh
    exact absurd rfl h

theorem reDoublePocket_false2 (s : Bytes) (h : ∀ x r, s[1]? = some x → ¬ IsRank x r) : reDoublePocket s = false := by
  cases hh : reDoublePocket s with
  | false => rfl
  | true =>
    obtain ⟨a, b, c, d, rest, ra, rb, rc, rd, rfl, _, hb, _⟩ := reDoublePocket_shape s hh
    exact absurd hb (h b rb rfl)

theorem reDoubleRankPair_false4 (s : Bytes) (h : s[3]? ≠ some 45) : reDoubleRankPair s = false := by
  cases hh : reDoubleRankPair s with
  | false => rfl
  | true =>
    obtain ⟨a, b, x, c, d, y, rest, ra, rb, rc, rd, rfl, _⟩ := reDoubleRankPair_shape s hh
    exact absurd rfl h

theorem reDoubleRankPair_false3 (s : Bytes) (h : ∀ x, s[2]? = some x → isSoByte x = false) :
    reDoubleRankPair s = false := by
  cases hh : reDoubleRankPair s with
  | false => rfl
  | true =>
    obtain ⟨a, b, x, c, d, y, rest, ra, rb, rc, rd, rfl, _, _, hx, _⟩ := reDoubleRankPair_shape s hh
    have := h x rfl
    rw [hx] at this; cases this

theorem reDoubleRankPair_false2 (s : Bytes) (h : ∀ x r, s[1]? = some x → ¬ IsRank x r) :
    reDoubleRankPair s = false := by
  cases hh : reDoubleRankPair s with
  | false => rfl
  | true =>
    obtain ⟨a, b, x, c, d, y, rest, ra, rb, rc, rd, rfl, _, hb, _⟩ := reDoubleRankPair_shape s hh
    exact absurd hb (h b rb rfl)

theorem reBottomPocket_false3 (s : Bytes) (h : s[2]? ≠ some 43) : reBottomPocket s = false := by
  cases hh : reBottomPocket s with
  | false => rfl
  | true =>
    obtain ⟨a, b, rest, ra, rb, rfl, _⟩ := reBottomPocket_shape s hh
    exact absurd rfl h

theorem reBottomPocket_false2 (s : Bytes) (h : ∀ x r, s[1]? = some x → ¬ IsRank x r) : reBottomPocket s = false := by
  cases hh : reBottomPocket s with
  | false => rfl
  | true =>
    obtain ⟨a, b, rest, ra, rb, rfl, _, hb, _⟩ := reBottomPocket_shape s hh
    exact absurd hb (h b rb rfl)

theorem reBottomRankPair_false4 (s : Bytes) (h : s[3]? ≠ some 43) : reBottomRankPair s = false := by
  cases hh : reBottomRankPair s with
  | false => rfl
  | true =>
    obtain ⟨a, b, x, rest, ra, rb, rfl, _⟩ := reBottomRankPair_shape s hh
    exact absurd rfl h

theorem reBottomRankPair_false3 (s : Bytes) (h : ∀ x, s[2]? = some x → isSoByte x = false) :
    reBottomRankPair s = false := by
  cases hh : reBottomRankPair s with
  | false => rfl
  | true =>
    obtain ⟨a, b, x, rest, ra, rb, rfl, _, _, hx, _⟩ := reBottomRankPair_shape s hh
    have := h x rfl
    rw [hx] at this; cases this

theorem reBottomRankPair_false2 (s : Bytes) (h : ∀ x r, s[1]? = some x → ¬ IsRank x r) :
    reBottomRankPair s = false := by
  cases hh : reBottomRankPair s with
  | false => rfl
  | true =>
    obtain ⟨a, b, x, rest, ra, rb, rfl, _, hb, _⟩ := reBottomRankPair_shape s hh
    exact absurd hb (h b rb rfl)

theorem reSinglePocket_false_drop (s : Bytes) (h : isWeightSuffix (s.drop 2) = false) : reSinglePocket s = false := by
  cases hh : reSinglePocket s with
  | false => rfl
  | true =>
    obtain ⟨a, b, rest, ra, rb, rfl, _, _, hs⟩ := reSinglePocket_shape s hh
    simp only [List.drop_succ_cons, List.drop_zero] at h
    rw [hs] at h; cases h

theorem reSinglePocket_false2 (s : Bytes) (h : ∀ x r, s[1]? = some x → ¬ IsRank x r) : reSinglePocket s = false := by
  cases hh : reSinglePocket s with
  | false => rfl
  | true =>
    obtain ⟨a, b, rest, ra, rb, rfl, _, hb, _⟩ := reSinglePocket_shape s hh
    exact absurd hb (h b rb rfl)

theorem reSingleRankPair_false2 (s : Bytes) (h : ∀ x r, s[1]? = some x → ¬ IsRank x r) :
    reSingleRankPair s = false := by
  cases hh : reSingleRankPair s with
  | false => rfl
  | true =>
    obtain ⟨a, b, x, rest, ra, rb, rfl, _, hb, _⟩ := reSingleRankPair_shape s hh
    exact absurd hb (h b rb rfl)

/-! ### the text of a well-formed kind parses back -/

theorem parse_doublePocket (wt : WText W) (top bottom : Nat) (h1 : top ≤ bottom) (h2 : bottom < 13)
    (suffix : Bytes) (hs : isWeightSuffix suffix = true) :
    parseToken wt ((TokenKind.doubleClosed (.pocket top) bottom).show ++ suffix)
      = .ok ⟨.doubleClosed (.pocket top) bottom, sufW wt suffix⟩ := by
  have ht := isRank_rankChar top (by omega)
  have hb := isRank_rankChar bottom h2
  have e : (TokenKind.doubleClosed (.pocket top) bottom).show ++ suffix
      = rankChar top :: rankChar top :: 45 :: rankChar bottom :: rankChar bottom :: suffix := rfl
  rw [e, parseToken_unfold]
  apply go_hit
  rw [brDoublePocket_eq wt _ _ _ _ suffix top top bottom bottom ht ht hb hb hs]
  simp [h1]

theorem parse_doubleSo (wt : WText W) (x : Nat) (hx : isSoByte x = true) (h kt kb : Nat) (h1 : h < kt) (h2 : kt < kb)
    (h3 : kb < 13) (suffix : Bytes) (hs : isWeightSuffix suffix = true) :
    parseToken wt (rankChar h :: rankChar kt :: x :: 45 :: rankChar h :: rankChar kb :: x :: suffix)
      = .ok ⟨.doubleClosed (soPair x h kt) kb, sufW wt suffix⟩ := by
  have hh := isRank_rankChar h (by omega)
  have hkt := isRank_rankChar kt (by omega)
  have hkb := isRank_rankChar kb h3
  have hx45 : x ≠ 45 := by rcases (isSoByte_iff x).mp hx with e | e <;> omega
  rw [parseToken_unfold]
  rw [go_next _ _ _ (brDoublePocket_next wt _ (reDoublePocket_false3 _ (by simpa using hx45)))]
  apply go_hit
  rw [brDoubleRankPair_eq wt _ _ x _ _ x suffix h kt h kb hh hkt hx hh hkb hx hs]
  simp [h1, h2]

theorem parse_bottomPocket (wt : WText W) (r : Nat) (hr : r < 13)
    (suffix : Bytes) (hs : isWeightSuffix suffix = true) :
    parseToken wt ((TokenKind.bottomClosed (.pocket r)).show ++ suffix)
      = .ok ⟨.bottomClosed (.pocket r), sufW wt suffix⟩ := by
  have hh := isRank_rankChar r hr
  have e : (TokenKind.bottomClosed (.pocket r)).show ++ suffix = rankChar r :: rankChar r :: 43 :: suffix := rfl
  rw [e, parseToken_unfold]
  rw [go_next _ _ _ (brDoublePocket_next wt _ (reDoublePocket_false3 _ (by simp)))]
  rw [go_next _ _ _ (brDoubleRankPair_next wt _ (reDoubleRankPair_false3 _ (by
    intro x hx; simp at hx; subst hx; decide)))]
  apply go_hit
  rw [brBottomPocket_eq wt _ _ suffix r r hh hh hs]
  simp

theorem parse_bottomSo (wt : WText W) (x : Nat) (hx : isSoByte x = true) (h k : Nat) (h1 : h < k) (h2 : k < 13)
    (suffix : Bytes) (hs : isWeightSuffix suffix = true) :
    parseToken wt (rankChar h :: rankChar k :: x :: 43 :: suffix)
      = .ok ⟨.bottomClosed (soPair x h k), sufW wt suffix⟩ := by
  have hh := isRank_rankChar h (by omega)
  have hk := isRank_rankChar k h2
  have hx45 : x ≠ 45 ∧ x ≠ 43 := by rcases (isSoByte_iff x).mp hx with e | e <;> omega
  rw [parseToken_unfold]
  rw [go_next _ _ _ (brDoublePocket_next wt _ (reDoublePocket_false3 _ (by simpa using hx45.1)))]
  rw [go_next _ _ _ (brDoubleRankPair_next wt _ (reDoubleRankPair_false4 _ (by simp)))]
  rw [go_next _ _ _ (brBottomPocket_next wt _ (reBottomPocket_false3 _ (by simpa using hx45.2)))]
  apply go_hit
  rw [brBottomRankPair_eq wt _ _ x suffix h k hh hk hx hs]
  simp [h1]

theorem parse_singlePocket (wt : WText W) (r : Nat) (hr : r < 13)
    (suffix : Bytes) (hs : isWeightSuffix suffix = true) :
    parseToken wt ((TokenKind.singleRank (.pocket r)).show ++ suffix)
      = .ok ⟨.singleRank (.pocket r), sufW wt suffix⟩ := by
  have hh := isRank_rankChar r hr
  have e : (TokenKind.singleRank (.pocket r)).show ++ suffix = rankChar r :: rankChar r :: suffix := rfl
  rw [e, parseToken_unfold]
  rw [go_next _ _ _ (brDoublePocket_next wt _ (reDoublePocket_false3 _ (by
    simpa using suffix_head_ne suffix hs 45 (by omega))))]
  rw [go_next _ _ _ (brDoubleRankPair_next wt _ (reDoubleRankPair_false3 _ (by
    intro x hx; simp at hx; exact suffix_head_so suffix hs x (by simpa using hx))))]
  rw [go_next _ _ _ (brBottomPocket_next wt _ (reBottomPocket_false3 _ (by
    simpa using suffix_head_ne suffix hs 43 (by omega))))]
  rw [go_next _ _ _ (brBottomRankPair_next wt _ (reBottomRankPair_false3 _ (by
    intro x hx; simp at hx; exact suffix_head_so suffix hs x (by simpa using hx))))]
  apply go_hit
  rw [brSinglePocket_eq wt _ _ suffix r r hh hh hs]
  simp

theorem parse_singleSo (wt : WText W) (x : Nat) (hx : isSoByte x = true) (a b : Nat) (h1 : a ≠ b) (h2 : a < 13)
    (h3 : b < 13) (suffix : Bytes) (hs : isWeightSuffix suffix = true) :
    parseToken wt (rankChar a :: rankChar b :: x :: suffix)
      = .ok ⟨.singleRank (soPair x a b), sufW wt suffix⟩ := by
  have ha := isRank_rankChar a h2
  have hb := isRank_rankChar b h3
  have hx45 : x ≠ 45 ∧ x ≠ 43 ∧ x ≠ 58 := by rcases (isSoByte_iff x).mp hx with e | e <;> omega
  rw [parseToken_unfold]
  rw [go_next _ _ _ (brDoublePocket_next wt _ (reDoublePocket_false3 _ (by simpa using hx45.1)))]
  rw [go_next _ _ _ (brDoubleRankPair_next wt _ (reDoubleRankPair_false4 _ (by
    simpa using suffix_head_ne suffix hs 45 (by omega))))]
  rw [go_next _ _ _ (brBottomPocket_next wt _ (reBottomPocket_false3 _ (by simpa using hx45.2.1)))]
  rw [go_next _ _ _ (brBottomRankPair_next wt _ (reBottomRankPair_false4 _ (by
    simpa using suffix_head_ne suffix hs 43 (by omega))))]
  rw [go_next _ _ _ (brSinglePocket_next wt _ (reSinglePocket_false_drop _ (by
    simpa using not_weightSuffix_cons x hx45.2.2 suffix)))]
  apply go_hit
  rw [brSingleRankPair_eq wt _ _ x suffix a b ha hb hx hs]
  simp [h1]

theorem parse_singleCard (wt : WText W) (cp : Combo) (hc : ComboOk cp)
    (suffix : Bytes) (hs : isWeightSuffix suffix = true) :
    parseToken wt ((TokenKind.singleCard cp).show ++ suffix) = .ok ⟨.singleCard cp, sufW wt suffix⟩ := by
  obtain ⟨⟨r1, s1⟩, ⟨r2, s2⟩⟩ := cp
  obtain ⟨v1, v2, hlt⟩ := hc
  simp only [Card.valid, Bool.and_eq_true, decide_eq_true_eq] at v1 v2
  have hr1 := isRank_rankChar r1 v1.1
  have hr2 := isRank_rankChar r2 v2.1
  have hs1 := isSuit_suitChar s1 v1.2
  have hs2 := isSuit_suitChar s2 v2.2
  have e : (TokenKind.singleCard ⟨⟨r1, s1⟩, ⟨r2, s2⟩⟩).show ++ suffix
      = rankChar r1 :: suitChar s1 :: rankChar r2 :: suitChar s2 :: suffix := rfl
  have h2 : ∀ x r, (rankChar r1 :: suitChar s1 :: rankChar r2 :: suitChar s2 :: suffix)[1]? = some x → ¬ IsRank x r := by
    intro x r hx hr
    simp at hx; subst hx
    exact not_rank_and_suit _ _ _ hr hs1
  rw [e, parseToken_unfold]
  rw [go_next _ _ _ (brDoublePocket_next wt _ (reDoublePocket_false2 _ h2))]
  rw [go_next _ _ _ (brDoubleRankPair_next wt _ (reDoubleRankPair_false2 _ h2))]
  rw [go_next _ _ _ (brBottomPocket_next wt _ (reBottomPocket_false2 _ h2))]
  rw [go_next _ _ _ (brBottomRankPair_next wt _ (reBottomRankPair_false2 _ h2))]
  rw [go_next _ _ _ (brSinglePocket_next wt _ (reSinglePocket_false2 _ h2))]
  rw [go_next _ _ _ (brSingleRankPair_next wt _ (reSingleRankPair_false2 _ h2))]
  apply go_hit
  rw [brSingleCardPair_eq wt _ _ _ _ suffix r1 s1 r2 s2 hr1 hs1 hr2 hs2 hs]
  have hne : (⟨r1, s1⟩ : Card) ≠ ⟨r2, s2⟩ := by
    intro e
    rw [e] at hlt
    simp [Card.lt] at hlt
  rw [if_pos hne, RankPairFacts.mkPair_of_lt hlt]

/-- a valid combo in canonical form is what `TokenOk (.singleCard ·)` asks for, and conversely -/
theorem tokenOk_singleCard_iff (cp : Combo) : TokenOk (.singleCard cp) ↔ ComboOk cp := by
  constructor
  · rintro ⟨l, r, hl, hr, hne, rfl⟩
    exact comboOk_mkPair l r hl hr hne
  · rintro ⟨v1, v2, hlt⟩
    refine ⟨cp.fst, cp.snd, v1, v2, ?_, ?_⟩
    · intro e
      rw [e] at hlt
      simp [Card.lt] at hlt
    · rw [RankPairFacts.mkPair_of_lt hlt]

/-- **core of C06 (token)**: the text of a well-formed kind followed by a weight suffix parses to that kind with the
weight of the suffix -/
theorem parse_show_kind (wt : WText W) (kind : TokenKind) (hk : TokenOk kind) (suffix : Bytes)
    (hs : isWeightSuffix suffix = true) :
    parseToken wt (kind.show ++ suffix) = .ok ⟨kind, sufW wt suffix⟩ := by
  match kind, hk with
  | .doubleClosed (.pocket top) bottom, hk => exact parse_doublePocket wt top bottom hk.1 hk.2 suffix hs
  | .doubleClosed (.suited h kt) kb, hk =>
    exact parse_doubleSo wt 115 (by decide) h kt kb hk.1 hk.2.1 hk.2.2 suffix hs
  | .doubleClosed (.ofsuit h kt) kb, hk =>
    exact parse_doubleSo wt 111 (by decide) h kt kb hk.1 hk.2.1 hk.2.2 suffix hs
  | .bottomClosed (.pocket r), hk => exact parse_bottomPocket wt r hk suffix hs
  | .bottomClosed (.suited h k), hk => exact parse_bottomSo wt 115 (by decide) h k hk.1 hk.2 suffix hs
  | .bottomClosed (.ofsuit h k), hk => exact parse_bottomSo wt 111 (by decide) h k hk.1 hk.2 suffix hs
  | .singleRank (.pocket r), hk => exact parse_singlePocket wt r hk suffix hs
  | .singleRank (.suited x y), hk => exact parse_singleSo wt 115 (by decide) x y hk.1 hk.2.1 hk.2.2 suffix hs
  | .singleRank (.ofsuit x y), hk => exact parse_singleSo wt 111 (by decide) x y hk.1 hk.2.1 hk.2.2 suffix hs
  | .singleCard cp, hk => exact parse_singleCard wt cp ((tokenOk_singleCard_iff cp).mp hk) suffix hs

/-! ### the text of a token -/

/-- the weight suffix `Display` writes -/
def showSuffix (wt : WText W) (p : W) : Bytes := if wt.eq p wt.one then [] else 58 :: wt.showW p

theorem show_eq (wt : WText W) (t : Token W) : t.show wt = t.kind.show ++ showSuffix wt t.prob := by
  unfold Token.show showSuffix
  split <;> simp

theorem showSuffix_ok (wt : WText W) (inDom : W → Prop) (hok : WTextOk wt inDom) (p : W) (hp : inDom p) :
    isWeightSuffix (showSuffix wt p) = true ∧ sufW wt (showSuffix wt p) = p := by
  unfold showSuffix
  split
  · next h =>
    have : p = wt.one := (hok.eq_iff p wt.one hp hok.one_dom).mp h
    refine ⟨rfl, ?_⟩
    rw [sufW_nil, hok.parse_empty, this]; rfl
  · next h =>
    have hne : p ≠ wt.one := fun e => h ((hok.eq_iff p wt.one hp hok.one_dom).mpr e)
    refine ⟨hok.show_grammar p hp hne, ?_⟩
    rw [sufW_colon, hok.roundtrip p hp]; rfl

theorem parse_show (wt : WText W) (inDom : W → Prop) (hok : WTextOk wt inDom) (tok : Token W)
    (hk : TokenOk tok.kind) (hw : inDom tok.prob) : parseToken wt (tok.show wt) = .ok tok := by
  obtain ⟨h1, h2⟩ := showSuffix_ok wt inDom hok tok.prob hw
  rw [show_eq, parse_show_kind wt tok.kind hk _ h1, h2]

/-! ### no space, no comma -/

/-- bytes that are neither a space nor a comma -/
def Clean (s : Bytes) : Prop := ∀ b ∈ s, b ≠ 32 ∧ b ≠ 44

theorem clean_rankChar (r : Nat) (hr : r < 13) : rankChar r ≠ 32 ∧ rankChar r ≠ 44 := by
  have key : ∀ r ∈ List.range 13, rankChar r ≠ 32 ∧ rankChar r ≠ 44 := by decide
  exact key r (List.mem_range.mpr hr)

theorem clean_suitChar (s : Nat) (hs : s < 4) : suitChar s ≠ 32 ∧ suitChar s ≠ 44 := by
  have key : ∀ r ∈ List.range 4, suitChar r ≠ 32 ∧ suitChar r ≠ 44 := by decide
  exact key s (List.mem_range.mpr hs)

theorem clean_weightText (w : Bytes) (h : isWeightText w = true) : Clean w := by
  have hd : ∀ l : Bytes, l.all isDigit = true → Clean l := by
    intro l hl b hb
    have := List.all_eq_true.mp hl b hb
    simp only [isDigit, Bool.and_eq_true, decide_eq_true_eq] at this
    omega
  have hz : ∀ l : Bytes, l.all (· == 48) = true → Clean l := by
    intro l hl b hb
    have := List.all_eq_true.mp hl b hb
    simp only [beq_iff_eq] at this
    omega
  unfold isWeightText at h
  split at h
  · intro b hb; simp at hb; omega
  · intro b hb
    simp only [List.mem_cons] at hb
    rcases hb with rfl | rfl | hb
    · omega
    · omega
    · exact hd _ h b (by simpa using hb)
  · intro b hb; simp at hb; omega
  · intro b hb
    simp only [List.mem_cons] at hb
    rcases hb with rfl | rfl | hb
    · omega
    · omega
    · exact hz _ h b (by simpa using hb)
  · cases h

theorem clean_suffix (suffix : Bytes) (h : isWeightSuffix suffix = true) : Clean suffix := by
  rcases suffix_cases suffix h with rfl | ⟨w, rfl, hw⟩
  · intro b hb; cases hb
  · intro b hb
    rcases List.mem_cons.mp hb with rfl | hb
    · omega
    · exact clean_weightText w hw b hb

theorem clean_nil : Clean [] := fun _ hb => nomatch hb

theorem clean_cons (x : Nat) (l : Bytes) : Clean (x :: l) ↔ (x ≠ 32 ∧ x ≠ 44) ∧ Clean l := by
  unfold Clean
  simp only [List.mem_cons, forall_eq_or_imp]

theorem clean_kind (kind : TokenKind) (hk : TokenOk kind) : Clean kind.show ∧ kind.show ≠ [] := by
  have c := clean_rankChar
  match kind, hk with
  | .doubleClosed (.pocket top) bottom, hk =>
    obtain ⟨h1, h2⟩ := hk
    have := c top (by omega); have := c bottom h2
    simp [TokenKind.show, RankPair.show, clean_cons, clean_nil, *]
  | .doubleClosed (.suited h kt) kb, hk =>
    obtain ⟨h1, h2, h3⟩ := hk
    have := c h (by omega); have := c kt (by omega); have := c kb h3
    simp [TokenKind.show, clean_cons, clean_nil, *]
  | .doubleClosed (.ofsuit h kt) kb, hk =>
    obtain ⟨h1, h2, h3⟩ := hk
    have := c h (by omega); have := c kt (by omega); have := c kb h3
    simp [TokenKind.show, clean_cons, clean_nil, *]
  | .bottomClosed (.pocket r), hk =>
    have := c r hk
    simp [TokenKind.show, RankPair.show, clean_cons, clean_nil, *]
  | .bottomClosed (.suited h k), hk =>
    obtain ⟨h1, h2⟩ := hk
    have := c h (by omega); have := c k h2
    simp [TokenKind.show, RankPair.show, clean_cons, clean_nil, *]
  | .bottomClosed (.ofsuit h k), hk =>
    obtain ⟨h1, h2⟩ := hk
    have := c h (by omega); have := c k h2
    simp [TokenKind.show, RankPair.show, clean_cons, clean_nil, *]
  | .singleRank (.pocket r), hk =>
    have := c r hk
    simp [TokenKind.show, RankPair.show, clean_cons, clean_nil, *]
  | .singleRank (.suited x y), hk =>
    obtain ⟨h1, h2, h3⟩ := hk
    have := c x h2; have := c y h3
    simp [TokenKind.show, RankPair.show, clean_cons, clean_nil, *]
  | .singleRank (.ofsuit x y), hk =>
    obtain ⟨h1, h2, h3⟩ := hk
    have := c x h2; have := c y h3
    simp [TokenKind.show, RankPair.show, clean_cons, clean_nil, *]
  | .singleCard cp, hk =>
    obtain ⟨v1, v2, _⟩ := (tokenOk_singleCard_iff cp).mp hk
    simp only [Card.valid, Bool.and_eq_true, decide_eq_true_eq] at v1 v2
    have := c _ v1.1; have := c _ v2.1
    have := clean_suitChar _ v1.2; have := clean_suitChar _ v2.2
    simp [TokenKind.show, showPair, showCard, clean_cons, clean_nil, *]

theorem clean_show (wt : WText W) (inDom : W → Prop) (hok : WTextOk wt inDom) (tok : Token W)
    (hk : TokenOk tok.kind) (hw : inDom tok.prob) : Clean (tok.show wt) ∧ tok.show wt ≠ [] := by
  obtain ⟨h1, _⟩ := showSuffix_ok wt inDom hok tok.prob hw
  obtain ⟨c1, c2⟩ := clean_kind tok.kind hk
  rw [show_eq]
  refine ⟨?_, by simp [c2]⟩
  intro b hb
  rcases List.mem_append.mp hb with hb | hb
  · exact c1 b hb
  · exact clean_suffix _ h1 b hb

end EspadaVerif.RoundtripToken
