/-
Lemmas/TallySwap: exchanging two neighbouring players (`Spec.swapAt`) — lists, `Spec.product`,
`Spec.winnersOf`, and the per-position count of `Spec.tally`.
-/
import EspadaVerif.Spec.Tally
import EspadaVerif.Lemmas.IterOdometer

namespace EspadaVerif.TallyLemmas
open EspadaVerif Spec

/-! ### generalities -/

theorem perm_flatMap_left {α β : Type} (l : List α) (f g : α → List β) (h : ∀ a ∈ l, (f a).Perm (g a)) :
    (l.flatMap f).Perm (l.flatMap g) := by
  induction l with
  | nil => exact List.Perm.refl _
  | cons x l ih =>
    simp only [List.flatMap_cons]
    exact (h x (by simp)).append (ih fun a ha => h a (List.mem_cons_of_mem _ ha))

theorem flatMap_append_perm {α β : Type} (l : List α) (f g : α → List β) :
    (l.flatMap fun a => f a ++ g a).Perm (l.flatMap f ++ l.flatMap g) := by
  induction l with
  | nil => exact List.Perm.refl _
  | cons x l ih =>
    simp only [List.flatMap_cons]
    refine (List.Perm.append_left _ ih).trans ?_
    -- f x ++ g x ++ (F ++ G) ~ f x ++ F ++ (g x ++ G)
    rw [List.append_assoc, List.append_assoc]
    refine List.Perm.append_left _ ?_
    rw [← List.append_assoc, ← List.append_assoc]
    exact List.Perm.append_right _ List.perm_append_comm

/-- exchanging two nested `flatMap`s permutes the result -/
theorem perm_flatMap_comm {α β γ : Type} (l₁ : List α) (l₂ : List β) (f : α → β → List γ) :
    (l₁.flatMap fun a => l₂.flatMap fun b => f a b).Perm (l₂.flatMap fun b => l₁.flatMap fun a => f a b) := by
  induction l₁ with
  | nil => simp
  | cons x l₁ ih =>
    simp only [List.flatMap_cons]
    refine (List.Perm.append_left _ ih).trans ?_
    exact (flatMap_append_perm l₂ (fun b => f x b) (fun b => l₁.flatMap fun a => f a b)).symm

/-! ### `swapAt` on lists -/

theorem swapAt_perm {α : Type} (i : Nat) (l : List α) : (swapAt i l).Perm l := by
  induction i generalizing l with
  | zero =>
    match l with
    | [] => exact List.Perm.refl _
    | [_] => exact List.Perm.refl _
    | x :: y :: rest => exact List.Perm.swap _ _ _
  | succ i ih =>
    match l with
    | [] => exact List.Perm.refl _
    | x :: rest => exact (ih rest).cons x

theorem swapAt_map {α β : Type} (f : α → β) (i : Nat) (l : List α) : swapAt i (l.map f) = (swapAt i l).map f := by
  induction i generalizing l with
  | zero =>
    match l with
    | [] => rfl
    | [_] => rfl
    | x :: y :: rest => rfl
  | succ i ih =>
    match l with
    | [] => rfl
    | x :: rest => simp only [List.map_cons, swapAt, ih]

theorem swapAt_length {α : Type} (i : Nat) (l : List α) : (swapAt i l).length = l.length :=
  (swapAt_perm i l).length_eq

theorem swapAt_getElem? {α : Type} (i p : Nat) (l : List α) (hi : i + 1 < l.length) :
    (swapAt i l)[swapIdx i p]? = l[p]? := by
  induction i generalizing l p with
  | zero =>
    match l, hi with
    | x :: y :: rest, _ =>
      match p with
      | 0 => simp [swapAt, swapIdx]
      | 1 => simp [swapAt, swapIdx]
      | p + 2 => simp [swapAt, swapIdx]
  | succ i ih =>
    match l, hi with
    | x :: rest, hi =>
      have hi' : i + 1 < rest.length := by simpa using hi
      match p with
      | 0 => simp [swapAt, swapIdx]
      | p + 1 =>
        have e : swapIdx (i + 1) (p + 1) = swapIdx i p + 1 := by
          unfold swapIdx
          by_cases h1 : p = i
          · simp [h1]
          · by_cases h2 : p = i + 1
            · simp [h2]
            · simp [h1, h2]
        rw [e]
        simp only [swapAt, List.getElem?_cons_succ]
        exact ih p rest hi'

/-! ### `product` and `winnersOf` -/

theorem product_length_eq {α : Type} {L : List (List α)} {ch : List α} (h : ch ∈ product L) :
    ch.length = L.length := by
  induction L generalizing ch with
  | nil =>
    simp only [product, List.mem_singleton] at h
    subst h; rfl
  | cons l rest ih =>
    simp only [product, List.mem_flatMap, List.mem_map] at h
    obtain ⟨x, _, xs, hxs, rfl⟩ := h
    simp [ih hxs]

theorem product_swapAt {α : Type} (i : Nat) (L : List (List α)) (hi : i + 1 < L.length) :
    (product (swapAt i L)).Perm ((product L).map (swapAt i)) := by
  induction i generalizing L with
  | zero =>
    match L, hi with
    | x :: y :: rest, _ =>
      simp only [swapAt, product, List.map_flatMap, List.map_map]
      exact perm_flatMap_comm y x fun b a => (product rest).map fun r => b :: a :: r
  | succ i ih =>
    match L, hi with
    | x :: rest, hi =>
      have hi' : i + 1 < rest.length := by simpa using hi
      simp only [swapAt, product, List.map_flatMap, List.map_map]
      apply perm_flatMap_left
      intro a _
      have := (ih rest hi').map (a :: ·)
      simpa [Function.comp_def, swapAt] using this

theorem winnersOf_swapAt (i : Nat) (hs : List Nat) : winnersOf (swapAt i hs) = swapAt i (winnersOf hs) := by
  unfold winnersOf
  rw [swapAt_map]
  apply List.map_congr_left
  intro h _
  exact (swapAt_perm i hs).all_eq

end EspadaVerif.TallyLemmas
