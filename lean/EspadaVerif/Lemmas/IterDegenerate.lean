/-
Lemmas/IterDegenerate: the iterator lemmas of `IterAttempt` / `IterLoop` WITHOUT the canonical-order
hypothesis on combos.  `ChWf` (strict `Card.lt fst snd`) is replaced by `ChV` (both cards valid, nothing
else): a combo may hold two EQUAL cards (`CardPair::new(c, c)`, `"AsAs".parse()`), or two cards in the
wrong order.  The only place where the library uses the strict order is `wfTable` (`fst ≠ snd` for
`C03.WfTable`), on the branch where the deal is materialised; there `fst ≠ snd` follows from the flag of
`pickLoop` (all `used.insert` calls returned `true`, i.e. the hole cards are pairwise distinct).

Every lemma is the `_v` copy of the library lemma of the same name; the library is not edited.
-/
import EspadaVerif.Lemmas.IterLoop

namespace EspadaVerif.IterLemmas
open EspadaVerif Spec EspadaVerif.C02

variable {W : Type}

/-- every chosen entry is a combo of two valid cards (equal cards and any order allowed) -/
def ChV (ch : List (Combo × W)) : Prop :=
  ∀ e ∈ ch, e.1.fst.valid = true ∧ e.1.snd.valid = true

/-- every entry of every range is a combo of two valid cards -/
def RV (ranges : List (List (Combo × W))) : Prop := ∀ es ∈ ranges, ChV es

theorem ChWf.toV {ch : List (Combo × W)} (h : ChWf ch) : ChV ch :=
  fun e he => ⟨(h e he).1, (h e he).2.1⟩

theorem holes_valid_v (ch : List (Combo × W)) (h : ChV ch) : ∀ c ∈ holes ch, c.valid = true := by
  intro c hc
  obtain ⟨e, he, h1 | h1⟩ := (mem_holes ch c).mp hc
  · rw [h1]; exact (h e he).1
  · rw [h1]; exact (h e he).2

/-- pairwise distinct hole cards: in particular the two cards of each combo differ -/
theorem holes_nodup_ne (ch : List (Combo × W)) (h : (holes ch).Nodup) : ∀ e ∈ ch, e.1.fst ≠ e.1.snd := by
  induction ch with
  | nil => intro e he; cases he
  | cons x ch ih =>
    have hx : holes (x :: ch) = x.1.fst :: x.1.snd :: holes ch := by
      simp [holes]
    rw [hx] at h
    simp only [List.nodup_cons, List.mem_cons, not_or] at h
    intro e he
    rcases List.mem_cons.mp he with rfl | he
    · exact h.1.1
    · exact ih h.2.2 e he

/-- a combo of two equal cards makes the hole cards repeat -/
theorem holes_not_nodup (ch : List (Combo × W)) (e : Combo × W) (he : e ∈ ch) (hd : e.1.fst = e.1.snd) :
    ¬ (holes ch).Nodup :=
  fun h => holes_nodup_ne ch h e he hd

/-! ### legality of the specification's deal -/

theorem legal_iff_nodup_v (flop : List Card) (p : Nat × Nat) (ch : List (Combo × W)) (hf : WfFlop flop)
    (hp : p.1 < p.2 ∧ p.2 < 49) (hch : ChV ch) :
    Deal.legal (flop.map Card.code) (dealOf flop p ch) = true
      ↔ (flop ++ [cardAt flop p.1, cardAt flop p.2] ++ holes ch).Nodup := by
  obtain ⟨_, _, _, hv1, hv2, _, _⟩ := deck_at flop hf.len hf.nodup hf.valid p.1 p.2 hp.1 hp.2
  unfold Deal.legal
  rw [decide_eq_true_eq, dealOf_codes, nodup_map_code]
  intro c hc
  simp only [List.mem_append, List.mem_cons, List.not_mem_nil, or_false] at hc
  rcases hc with (hc | rfl | rfl) | hc
  · exact hf.valid c hc
  · exact hv1
  · exact hv2
  · exact holes_valid_v ch hch c hc

/-- the table of a raw position whose hole cards are pairwise distinct -/
theorem wfTable_v (flop : List Card) (p : Nat × Nat) (ch : List (Combo × W)) (hf : WfFlop flop)
    (hp : p.1 < p.2 ∧ p.2 < 49) (hch : ChV ch) (hh : (holes ch).Nodup) :
    C03.WfTable (flop ++ [cardAt flop p.1, cardAt flop p.2]) (ch.map (·.1)) := by
  obtain ⟨_, _, hne, hv1, hv2, hn1, hn2⟩ := deck_at flop hf.len hf.nodup hf.valid p.1 p.2 hp.1 hp.2
  change cardAt flop p.1 ≠ cardAt flop p.2 at hne
  change cardAt flop p.1 ∉ flop at hn1
  change cardAt flop p.2 ∉ flop at hn2
  constructor
  · simp [hf.len]
  · rw [List.nodup_append]
    refine ⟨hf.nodup, by simp [hne], ?_⟩
    intro a ha c hc e
    subst e
    simp only [List.mem_cons, List.not_mem_nil, or_false] at hc
    rcases hc with rfl | rfl
    · exact hn1 ha
    · exact hn2 ha
  · intro c hc
    simp only [List.mem_append, List.mem_cons, List.not_mem_nil, or_false] at hc
    rcases hc with hc | rfl | rfl
    · exact hf.valid c hc
    · exact hv1
    · exact hv2
  · intro pc hpc
    obtain ⟨e, he, rfl⟩ := List.mem_map.mp hpc
    exact ⟨(hch e he).1, (hch e he).2, holes_nodup_ne ch hh e he⟩

/-- the showdown the deal stands for, in terms of the entries -/
theorem showdownOfDeal_eq_v (ops : WOps W) (flop : List Card) (p : Nat × Nat) (ch : List (Combo × W))
    (hch : ChV ch) :
    showdownOfDeal ops flop (dealOf flop p ch)
      = showdownNew (ch.map (·.1)) (flop ++ [cardAt flop p.1, cardAt flop p.2])
          (ch.foldl (fun p c => ops.mul p c.2) ops.one) := by
  have e1 : ((dealOf flop p ch).choice.map fun c => (⟨Card.ofCode c.1, Card.ofCode c.2.1⟩ : Combo))
      = ch.map (·.1) := by
    simp only [dealOf, List.map_map]
    apply List.map_congr_left
    intro e he
    obtain ⟨h1, h2⟩ := hch e he
    simp only [Function.comp, toSpec, ofCode_code _ h1, ofCode_code _ h2]
  have e2 : (dealOf flop p ch).choice.foldl (fun p c => ops.mul p c.2.2) ops.one
      = ch.foldl (fun p c => ops.mul p c.2) ops.one := by
    simp only [dealOf, List.foldl_map, toSpec]
  unfold showdownOfDeal
  rw [e1, e2]
  rfl

/-- the hole cards of a legal deal are pairwise distinct -/
theorem holes_nodup_of_nodup (flop : List Card) (x y : Card) (ch : List (Combo × W))
    (h : (flop ++ [x, y] ++ holes ch).Nodup) : (holes ch).Nodup :=
  (List.nodup_append.mp h).2.1

/-- a legal deal stands for a showdown with the expected payload -/
theorem payload_core_v (ops : WOps W) (flop : List Card) (p : Nat × Nat) (ch : List (Combo × W))
    (hf : WfFlop flop) (hp : p.1 < p.2 ∧ p.2 < 49) (hch : ChV ch)
    (hleg : Deal.legal (flop.map Card.code) (dealOf flop p ch) = true) :
    ∃ sd : Showdown W, showdownOfDeal ops flop (dealOf flop p ch) = .ok (some sd)
      ∧ sd.board = flop ++ [cardAt flop p.1, cardAt flop p.2]
      ∧ sd.players.map (·.hole) = ch.map (·.1)
      ∧ sd.prob = ch.foldl (fun p c => ops.mul p c.2) ops.one
      ∧ (flop ++ [cardAt flop p.1, cardAt flop p.2] ++ holes ch).Nodup := by
  have hnd := (legal_iff_nodup_v flop p ch hf hp hch).mp hleg
  obtain ⟨_, hno⟩ := (nodup_split flop p ch hf hp).mp hnd
  obtain ⟨sd, h1, h2, h3, h4, _⟩ := C03.C03_some (flop ++ [cardAt flop p.1, cardAt flop p.2]) (ch.map (·.1))
    (ch.foldl (fun p c => ops.mul p c.2) ops.one)
    (wfTable_v flop p ch hf hp hch (holes_nodup_of_nodup flop _ _ ch hnd)) hno
  exact ⟨sd, by rw [showdownOfDeal_eq_v ops flop p ch hch, h1], h2, h4, h3, hnd⟩

/-- the iterator at a raw position whose deal is legal: the showdown of that deal -/
theorem attempt_legal_v (ops : WOps W) (flop : List Card) (ranges : List (List (Combo × W))) (b p : Nat × Nat)
    (v : List Nat) (ch : List (Combo × W)) (hf : WfFlop flop) (hp : p.1 < p.2 ∧ p.2 < 49)
    (hpick : pick ranges v = some ch) (hch : ChV ch)
    (hleg : Deal.legal (flop.map Card.code) (dealOf flop p ch) = true) :
    attempt ops (st flop ranges b p v) = showdownOfDeal ops flop (dealOf flop p ch) := by
  have hnd := (legal_iff_nodup_v flop p ch hf hp hch).mp hleg
  obtain ⟨hfl, _⟩ := (nodup_split flop p ch hf hp).mp hnd
  rw [attempt_eq ops flop ranges b p v ch hf hp hpick, if_pos hfl, showdownOfDeal_eq_v ops flop p ch hch]

/-- the iterator at a raw position whose deal is not legal: skipped.  When the flag of `pickLoop` is
false (some `used.insert` returned `false` — the case of a combo of two equal cards) nothing is
materialised; when it is true the hole cards are pairwise distinct, so `C03` applies to the table. -/
theorem attempt_illegal_v (ops : WOps W) (flop : List Card) (ranges : List (List (Combo × W))) (b p : Nat × Nat)
    (v : List Nat) (ch : List (Combo × W)) (hf : WfFlop flop) (hp : p.1 < p.2 ∧ p.2 < 49)
    (hpick : pick ranges v = some ch) (hch : ChV ch)
    (hleg : Deal.legal (flop.map Card.code) (dealOf flop p ch) = false) :
    attempt ops (st flop ranges b p v) = .ok none := by
  have hnd : ¬ (flop ++ [cardAt flop p.1, cardAt flop p.2] ++ holes ch).Nodup := by
    intro h
    rw [(legal_iff_nodup_v flop p ch hf hp hch).mpr h] at hleg
    cases hleg
  rw [attempt_eq ops flop ranges b p v ch hf hp hpick]
  split
  · rename_i hfl
    have hh : (holes ch).Nodup := by
      simp only [List.nodup_cons] at hfl
      exact hfl.2.2
    rw [C03.C03_none_iff _ _ _ (wfTable_v flop p ch hf hp hch hh)]
    apply Decidable.byContradiction
    intro hno
    apply hnd
    rw [nodup_split flop p ch hf hp]
    refine ⟨hfl, fun pc hpc => ?_⟩
    cases hc : C03.collides (flop ++ [cardAt flop p.1, cardAt flop p.2]) pc with
    | false => rfl
    | true => exact absurd ⟨pc, hpc, hc⟩ hno
  · rfl

/-- a raw position whose choice holds a combo of two equal cards is skipped (whatever the other
players hold) -/
theorem attempt_degenerate (ops : WOps W) (flop : List Card) (ranges : List (List (Combo × W))) (b p : Nat × Nat)
    (v : List Nat) (ch : List (Combo × W)) (hf : WfFlop flop) (hp : p.1 < p.2 ∧ p.2 < 49)
    (hpick : pick ranges v = some ch) (e : Combo × W) (he : e ∈ ch) (hd : e.1.fst = e.1.snd) :
    attempt ops (st flop ranges b p v) = .ok none := by
  rw [attempt_eq ops flop ranges b p v ch hf hp hpick, if_neg]
  intro h
  simp only [List.nodup_cons] at h
  exact holes_not_nodup ch e he hd h.2.2

/-- the specification's deal whose choice holds a combo of two equal cards is not legal (no validity
needed: equal cards have equal codes) -/
theorem legal_degenerate (flop : List Card) (p : Nat × Nat) (ch : List (Combo × W))
    (e : Combo × W) (he : e ∈ ch) (hd : e.1.fst = e.1.snd) :
    Deal.legal (flop.map Card.code) (dealOf flop p ch) = false := by
  cases hleg : Deal.legal (flop.map Card.code) (dealOf flop p ch) with
  | false => rfl
  | true =>
    exfalso
    unfold Deal.legal at hleg
    rw [decide_eq_true_eq, dealOf_codes] at hleg
    have h1 : ((holes ch).map Card.code).Nodup := by
      rw [List.map_append] at hleg
      exact (List.nodup_append.mp hleg).2.1
    have h2 : (holes ch).Nodup := by
      unfold List.Nodup at h1 ⊢
      rw [List.pairwise_map] at h1
      exact List.Pairwise.imp (fun h e => h (congrArg Card.code e)) h1
    exact holes_not_nodup ch e he hd h2

/-! ### the loop -/

theorem chV_of_pick {ranges : List (List (Combo × W))} (hr : RV ranges) {v : List Nat} {ch : List (Combo × W)}
    (h : pick ranges v = some ch) : ChV ch := by
  intro e he
  obtain ⟨es, hes, hm⟩ := mem_pick h e he
  exact hr es hes e hm

theorem chV_of_product {ranges : List (List (Combo × W))} (hr : RV ranges) {ch : List (Combo × W)}
    (h : ch ∈ product ranges) : ChV ch := by
  intro e he
  obtain ⟨es, hes, hm⟩ := mem_product h e he
  exact hr es hes e hm

theorem attempt_out_v (ops : WOps W) (flop : List Card) (ranges : List (List (Combo × W))) (b p : Nat × Nat)
    (v : List Nat) (ch : List (Combo × W)) (hf : WfFlop flop) (hp : p.1 < p.2 ∧ p.2 < 49)
    (hpick : pick ranges v = some ch) (hch : ChV ch) :
    attempt ops (st flop ranges b p v) = .ok (outOf ops flop p ch) := by
  unfold outOf
  cases hleg : Deal.legal (flop.map Card.code) (dealOf flop p ch) with
  | true =>
    obtain ⟨sd, hsd, _⟩ := payload_core_v ops flop p ch hf hp hch hleg
    rw [attempt_legal_v ops flop ranges b p v ch hf hp hpick hch hleg, hsd]
    simp
  | false =>
    rw [attempt_illegal_v ops flop ranges b p v ch hf hp hpick hch hleg]
    simp

theorem step_st_v (ops : WOps W) (flop : List Card) (ranges : List (List (Combo × W))) (b p : Nat × Nat)
    (v : List Nat) (ch : List (Combo × W)) (hf : WfFlop flop) (hp : p.1 < p.2 ∧ p.2 < 49)
    (hlt : posLt p b = true) (hne : ∀ es ∈ ranges, es ≠ [])
    (hpick : pick ranges v = some ch) (hch : ChV ch) :
    step ops (st flop ranges b p v) = match outOf ops flop p ch with
      | some sd => .ok (.yield sd, advance (st flop ranges b p v))
      | none => .ok (.skip, advance (st flop ranges b p v)) := by
  have h1 : (decide ((st flop ranges b p v).t ≥ (st flop ranges b p v).turnTo)
      && decide ((st flop ranges b p v).r ≥ (st flop ranges b p v).riverTo)) = false := stop_false hlt
  have h2 : (st flop ranges b p v).entries.any List.isEmpty = false := by
    rw [List.any_eq_false]
    intro es hes
    have := hne es hes
    cases es with
    | nil => exact absurd rfl this
    | cons _ _ => simp
  unfold step
  rw [h1, h2, attempt_out_v ops flop ranges b p v ch hf hp hpick hch]
  simp only [Bool.false_eq_true, if_false]
  cases outOf ops flop p ch <;> rfl

/-- from counters `v` at position `p`: the rest of the row, then the start of the next position -/
theorem run_row_v (ops : WOps W) (flop : List Card) (ranges : List (List (Combo × W))) (b p : Nat × Nat)
    (hf : WfFlop flop) (hr : RV ranges) (hp : p.1 < p.2 ∧ p.2 < 49)
    (hlt : posLt p b = true) (hne : ∀ es ∈ ranges, es ≠ []) :
    ∀ (l : List (List (Combo × W))) (v : List Nat) (ch : List (Combo × W)),
      afterE ranges v = l → pick ranges v = some ch → v.length = ranges.length →
      Runs ops (st flop ranges b p v) ((ch :: l).map (outOf ops flop p))
        (st flop ranges b (nextPos p) (List.replicate ranges.length 0)) := by
  intro l
  induction l with
  | nil =>
    intro v ch hl hpick hlen
    have hstep := step_st_v ops flop ranges b p v ch hf hp hlt hne hpick (chV_of_pick hr hpick)
    cases hinc : incrementable v (ranges.map List.length) with
    | some k =>
      obtain ⟨ch', _, h2⟩ := odo_some ranges hne v k hinc hlen ⟨ch, hpick⟩
      rw [hl] at h2
      cases h2
    | none =>
      rw [advance_none flop ranges b p v hinc hlen] at hstep
      exact Runs.cons_out hstep (Runs.nil _)
  | cons c l' ih =>
    intro v ch hl hpick hlen
    have hstep := step_st_v ops flop ranges b p v ch hf hp hlt hne hpick (chV_of_pick hr hpick)
    cases hinc : incrementable v (ranges.map List.length) with
    | none =>
      rw [odo_none ranges v hinc] at hl
      cases hl
    | some k =>
      obtain ⟨ch', h1, h2⟩ := odo_some ranges hne v k hinc hlen ⟨ch, hpick⟩
      rw [hl] at h2
      simp only [List.cons.injEq] at h2
      obtain ⟨rfl, rfl⟩ := h2
      rw [advance_some flop ranges b p v k hinc] at hstep
      have hlen' : (bump v k).length = ranges.length := by rw [bump_length hinc, hlen]
      exact Runs.cons_out hstep (ih (bump v k) c rfl h1 hlen')

/-- from the start of position `p` to the bound `b` -/
theorem run_positions_v (ops : WOps W) (flop : List Card) (ranges : List (List (Combo × W))) (b : Nat × Nat)
    (hf : WfFlop flop) (hr : RV ranges) (hne : ∀ es ∈ ranges, es ≠ []) (hb : validPos b = true) :
    ∀ (l : List (Nat × Nat)) (p : Nat × Nat), positionsBetween p b = l → validPos p = true →
      posLe p b = true →
      Runs ops (st flop ranges b p (List.replicate ranges.length 0))
        (l.flatMap fun q => (product ranges).map (outOf ops flop q))
        (st flop ranges b b (List.replicate ranges.length 0)) := by
  intro l
  induction l with
  | nil =>
    intro p hl hpv hle
    rcases (posLe_iff p b).mp hle with hlt | rfl
    · obtain ⟨hp, _, _⟩ := nextPos_valid hpv hb hlt
      rw [positionsBetween_step hp hlt] at hl
      cases hl
    · exact Runs.nil _
  | cons q l' ih =>
    intro p hl hpv hle
    rcases (posLe_iff p b).mp hle with hlt | rfl
    · obtain ⟨hp, hnv, hnle⟩ := nextPos_valid hpv hb hlt
      rw [positionsBetween_step hp hlt] at hl
      simp only [List.cons.injEq] at hl
      obtain ⟨rfl, rfl⟩ := hl
      obtain ⟨ch0, hp0, hprod⟩ := odo_zero ranges hne
      have hrow := run_row_v ops flop ranges b p hf hr hp hlt hne (afterE ranges (List.replicate ranges.length 0))
        (List.replicate ranges.length 0) ch0 rfl hp0 (by simp)
      rw [← hprod] at hrow
      rw [List.flatMap_cons]
      exact hrow.append (ih (nextPos p) rfl hnv hnle)
    · rw [positionsBetween_self] at hl
      cases hl

/-! ### the specification side -/

theorem row_eq_v (ops : WOps W) (flop : List Card) (p : Nat × Nat) (hf : WfFlop flop) (hp : p.1 < p.2 ∧ p.2 < 49)
    (l : List (List (Combo × W))) (hl : ∀ ch ∈ l, ChV ch) :
    ((l.map (dealOf flop p)).filter (Deal.legal (flop.map Card.code))).map (showdownOfDeal ops flop)
      = ((l.map (outOf ops flop p)).filterMap id).map (fun sd => Res.ok (some sd)) := by
  induction l with
  | nil => rfl
  | cons ch l ih =>
    have ih' := ih (fun c hc => hl c (List.mem_cons_of_mem _ hc))
    simp only [List.map_cons, List.filter_cons, List.filterMap_cons, id]
    cases hleg : Deal.legal (flop.map Card.code) (dealOf flop p ch) with
    | true =>
      obtain ⟨sd, hsd, _⟩ := payload_core_v ops flop p ch hf hp (hl ch (by simp)) hleg
      have : outOf ops flop p ch = some sd := by simp [outOf, hleg, hsd]
      simp only [this, if_true, List.map_cons, hsd, ih']
    | false =>
      have : outOf ops flop p ch = none := by simp [outOf, hleg]
      simp only [this, Bool.false_eq_true, if_false, ih']

theorem deals_out_eq_v (ops : WOps W) (flop : List Card) (ranges : List (List (Combo × W))) (hf : WfFlop flop)
    (hr : RV ranges) (l : List (Nat × Nat)) (hl : ∀ p ∈ l, p.1 < p.2 ∧ p.2 < 49) :
    (l.flatMap fun p => ((product ranges).map (dealOf flop p)).filter (Deal.legal (flop.map Card.code))).map
        (showdownOfDeal ops flop)
      = ((l.flatMap fun q => (product ranges).map (outOf ops flop q)).filterMap id).map
          (fun sd => Res.ok (some sd)) := by
  induction l with
  | nil => rfl
  | cons p l ih =>
    simp only [List.flatMap_cons, List.map_append, List.filterMap_append]
    rw [ih (fun q hq => hl q (List.mem_cons_of_mem _ hq)),
      row_eq_v ops flop p hf (hl p (by simp)) (product ranges) (fun ch hch => chV_of_product hr hch)]

/-! ### the refinement, for combos of two valid cards in any order, equal cards included -/

/-- the refinement theorem of `Props/C02.lean` under validity of the cards alone; in addition the end state is
named when no range is empty: the iterator has walked to the end `b` of the scope (blocked deals are
skipped one by one, the enumeration is not cut short) -/
theorem refines_v (ops : WOps W) (flop : List Card) (ranges : List (List (Combo × W))) (a b : Nat × Nat)
    (hf : WfFlop flop) (hr : RV ranges) (hs : ValidScope a b) :
    ∃ s₀ : IterState W, (mkEvaluator flop ranges a b).intoIter = .ok s₀ ∧
    ∃ (sds : List (Showdown W)) (sEnd : IterState W),
      (∀ limit, sds.length < limit → drainFuel ops limit s₀ [] = .ok (sds, sEnd))
      ∧ (deals (flop.map Card.code) (specEntries ranges) a b).map (showdownOfDeal ops flop)
          = sds.map (fun sd => .ok (some sd))
      ∧ next ops sEnd = .ok (none, sEnd)
      ∧ ((∀ es ∈ ranges, es ≠ []) → sEnd = st flop ranges b b (List.replicate ranges.length 0)) := by
  refine ⟨_, intoIter_eq flop ranges a b hf, ?_⟩
  by_cases hemp : ∃ es ∈ ranges, es = []
  · have hdone := step_empty ops flop ranges b a (List.replicate ranges.length 0) hemp
    refine ⟨[], _, ?_, ?_, next_done ops _ hdone, ?_⟩
    · intro limit hlim
      have := drain_spec ops _ hdone [] _ [] [] limit (Runs.nil _) (by simp [fuelFor]) rfl hlim
      simpa using this
    · rw [deals_eq, product_eq_nil ranges hemp]
      simp
    · intro hne
      obtain ⟨es, hes, he⟩ := hemp
      exact absurd he (hne es hes)
  · have hne : ∀ es ∈ ranges, es ≠ [] := fun es hes he => hemp ⟨es, hes, he⟩
    have hrun := run_positions_v ops flop ranges b hf hr hne hs.to_valid (positionsBetween a b) a rfl
      hs.from_valid hs.ordered
    have hdone := step_done ops flop ranges b (List.replicate ranges.length 0)
    have hfuel : ((positionsBetween a b).flatMap fun q => (product ranges).map (outOf ops flop q)).length
        < fuelFor (st flop ranges b b (List.replicate ranges.length 0)) := by
      rw [outs_length]
      have h1 := Nat.mul_le_mul_right (product ranges).length (positionsBetween_length_le a b)
      have h2 := product_length ranges 1
      simp only [fuelFor, st]
      rw [h2]
      generalize (product ranges).length = P at h1 ⊢
      generalize (positionsBetween a b).length * P = Q at h1 ⊢
      omega
    refine ⟨((positionsBetween a b).flatMap fun q => (product ranges).map (outOf ops flop q)).filterMap id,
      _, ?_, ?_, next_done ops _ hdone, fun _ => rfl⟩
    · intro limit hlim
      have := drain_spec ops _ hdone _ _ _ [] limit hrun hfuel rfl hlim
      simpa using this
    · rw [deals_eq]
      exact deals_out_eq_v ops flop ranges hf hr _ (fun p hp => mem_positionsBetween hp)

/-- every choice takes an entry from every list -/
theorem product_hits {α : Type} {L : List (List α)} {ch : List α} (h : ch ∈ product L) :
    ∀ l ∈ L, ∃ e ∈ ch, e ∈ l := by
  induction L generalizing ch with
  | nil => intro l hl; cases hl
  | cons l0 rest ih =>
    simp only [product, List.mem_flatMap, List.mem_map] at h
    obtain ⟨x, hx, xs, hxs, rfl⟩ := h
    intro l hl
    rcases List.mem_cons.mp hl with rfl | hl
    · exact ⟨x, List.mem_cons_self, hx⟩
    · obtain ⟨e, he, hel⟩ := ih hxs l hl
      exact ⟨e, List.mem_cons_of_mem _ he, hel⟩

/-- a player who holds only combos of two equal cards: the specification has no deal -/
theorem deals_degenerate (flop : List Card) (ranges : List (List (Combo × W))) (a b : Nat × Nat)
    (es : List (Combo × W)) (hes : es ∈ ranges) (hdeg : ∀ e ∈ es, e.1.fst = e.1.snd) :
    deals (flop.map Card.code) (specEntries ranges) a b = [] := by
  rw [deals_eq]
  rw [List.flatMap_eq_nil_iff]
  intro p _
  rw [List.filter_eq_nil_iff]
  intro d hd
  obtain ⟨ch, hch, rfl⟩ := List.mem_map.mp hd
  obtain ⟨e, he, hee⟩ := product_hits hch es hes
  rw [legal_degenerate flop p ch e he (hdeg e hee)]
  exact Bool.false_ne_true

end EspadaVerif.IterLemmas
