/-
Lemmas/NotationToken: the token half of C05.  The text of a well-formed notation token (`Spec.WfToken`) is parsed
by exactly one branch of `parseToken`; the expansion of the parsed token lists, in order, exactly the combos the
token denotes; what a well-formed token denotes has no repetition.
-/
import EspadaVerif.Lemmas.TokenFacts
import EspadaVerif.Lemmas.RankPairFacts

namespace EspadaVerif.NotationToken
open EspadaVerif TextDefs TokenFacts

variable {W : Type}

/-! ### letters: the specification's tables are the crate's -/

theorem rl_eq (r : Nat) : Spec.rl r = rankChar r := rfl
theorem sl_eq (s : Nat) : Spec.sl s = suitChar s := rfl

/-! ### codes of a pair -/

theorem codes_mkPair (x s y t : Nat) (hs : s < 4) (ht : t < 4) :
    comboCodes (mkPair ⟨x, s⟩ ⟨y, t⟩) = Spec.mkCombo (4 * x + s) (4 * y + t) := by
  rw [C14.mkPair_eq]
  unfold Spec.mkCombo
  by_cases hgt : Card.gt ⟨x, s⟩ ⟨y, t⟩ = true
  · rw [if_pos hgt]
    simp only [Card.gt, Card.lt, Bool.or_eq_true, Bool.and_eq_true, decide_eq_true_eq, beq_iff_eq] at hgt
    have : ¬ (4 * x + s < 4 * y + t) := by omega
    rw [if_neg this]
    simp only [comboCodes, Card.code, Prod.mk.injEq]
    omega
  · rw [if_neg hgt]
    simp only [Card.gt, Card.lt, Bool.or_eq_true, Bool.and_eq_true, decide_eq_true_eq, beq_iff_eq] at hgt
    by_cases h2 : 4 * x + s < 4 * y + t
    · rw [if_pos h2]
      simp only [comboCodes, Card.code, Prod.mk.injEq]
      omega
    · rw [if_neg h2]
      simp only [comboCodes, Card.code, Prod.mk.injEq]
      omega

/-! ### closed forms of the specification's combo lists -/

theorem pocketCombos_eq (r : Nat) :
    Spec.pocketCombos r = Gen.pocketSuits.map fun s => (4 * r + s.1, 4 * r + s.2) := rfl

theorem pairCombos_true (x y : Nat) :
    Spec.pairCombos x y true = Gen.suitedSuits.map fun s => Spec.mkCombo (4 * x + s.1) (4 * y + s.2) := rfl

theorem pairCombos_false (x y : Nat) :
    Spec.pairCombos x y false = Gen.ofsuitSuits.map fun s => Spec.mkCombo (4 * x + s.1) (4 * y + s.2) := rfl

/-! ### per rank pair: the crate's combos are the specification's, in the same order -/

theorem codes_pocket (r : Nat) : (RankPair.pocket r).combos.map comboCodes = Spec.pocketCombos r := by
  rw [pocketCombos_eq, RankPair.combos, List.map_map]
  apply List.map_congr_left
  intro s hs
  obtain ⟨h1, h2, h3⟩ := pocketSuits_facts s hs
  have hlt := RankPairFacts.pocketSuits_lt s hs
  simp only [Function.comp, codes_mkPair r s.1 r s.2 h1 h2, Spec.mkCombo]
  rw [if_pos (by omega)]

theorem codes_suited (x y : Nat) : (RankPair.suited x y).combos.map comboCodes = Spec.pairCombos x y true := by
  rw [pairCombos_true, RankPair.combos, List.map_map]
  apply List.map_congr_left
  intro s hs
  obtain ⟨h1, h2⟩ := suitedSuits_facts s hs
  simp only [Function.comp, codes_mkPair x s.1 y s.2 h1 h2]

theorem codes_ofsuit (x y : Nat) : (RankPair.ofsuit x y).combos.map comboCodes = Spec.pairCombos x y false := by
  rw [pairCombos_false, RankPair.combos, List.map_map]
  apply List.map_congr_left
  intro s hs
  obtain ⟨h1, h2⟩ := ofsuitSuits_facts s hs
  simp only [Function.comp, codes_mkPair x s.1 y s.2 h1 h2]

/-- `s` → suited, `o` → offsuit -/
theorem codes_soPair (x y : Nat) (s : Bool) :
    (soPair (Spec.so s) x y).combos.map comboCodes = Spec.pairCombos x y s := by
  cases s
  · exact codes_ofsuit x y
  · exact codes_suited x y

/-! ### what a well-formed token denotes has no repetition -/

theorem nodup_map_on {α β : Type} {f : α → β} {l : List α}
    (hinj : ∀ a ∈ l, ∀ b ∈ l, f a = f b → a = b) (h : l.Nodup) : (l.map f).Nodup := by
  unfold List.Nodup at *
  rw [List.pairwise_map]
  exact h.imp_of_mem (fun ha hb hne e => hne (hinj _ ha _ hb e))

theorem pocketCombos_nodup (r : Nat) : (Spec.pocketCombos r).Nodup := by
  rw [pocketCombos_eq]
  refine nodup_map_on ?_ (by decide)
  intro a _ b _ h
  simp only [Prod.mk.injEq] at h
  exact Prod.ext (by omega) (by omega)

theorem mkCombo_inj (x y : Nat) (hxy : x ≠ y) (a b : Nat × Nat) (_ha1 : a.1 < 4) (ha2 : a.2 < 4)
    (hb1 : b.1 < 4) (_hb2 : b.2 < 4)
    (h : Spec.mkCombo (4 * x + a.1) (4 * y + a.2) = Spec.mkCombo (4 * x + b.1) (4 * y + b.2)) : a = b := by
  unfold Spec.mkCombo at h
  split at h <;> split at h <;> simp only [Prod.mk.injEq] at h <;> exact Prod.ext (by omega) (by omega)

theorem pairCombos_nodup (x y : Nat) (s : Bool) (hxy : x ≠ y) : (Spec.pairCombos x y s).Nodup := by
  cases s
  · rw [pairCombos_false]
    refine nodup_map_on ?_ (by decide)
    intro a ha b hb h
    obtain ⟨h1, h2⟩ := ofsuitSuits_facts a ha
    obtain ⟨h3, h4⟩ := ofsuitSuits_facts b hb
    exact mkCombo_inj x y hxy a b h1 h2 h3 h4 h
  · rw [pairCombos_true]
    refine nodup_map_on ?_ (by decide)
    intro a ha b hb h
    obtain ⟨h1, h2⟩ := suitedSuits_facts a ha
    obtain ⟨h3, h4⟩ := suitedSuits_facts b hb
    exact mkCombo_inj x y hxy a b h1 h2 h3 h4 h

theorem mem_pocketCombos {r : Nat} {p : Nat × Nat} (h : p ∈ Spec.pocketCombos r) : p.1 / 4 = r := by
  rw [pocketCombos_eq] at h
  obtain ⟨s, hs, rfl⟩ := List.mem_map.mp h
  obtain ⟨h1, _, _⟩ := pocketSuits_facts s hs
  simp only
  omega

theorem mem_pairCombos {x k : Nat} {s : Bool} (hxk : x < k) {p : Nat × Nat} (h : p ∈ Spec.pairCombos x k s) :
    p.2 / 4 = k := by
  have key : ∀ a : Nat × Nat, a.1 < 4 → a.2 < 4 → (Spec.mkCombo (4 * x + a.1) (4 * k + a.2)).2 / 4 = k := by
    intro a h1 h2
    unfold Spec.mkCombo
    rw [if_pos (by omega)]
    simp only
    omega
  cases s
  · rw [pairCombos_false] at h
    obtain ⟨a, ha, rfl⟩ := List.mem_map.mp h
    obtain ⟨h1, h2⟩ := ofsuitSuits_facts a ha
    exact key a h1 h2
  · rw [pairCombos_true] at h
    obtain ⟨a, ha, rfl⟩ := List.mem_map.mp h
    obtain ⟨h1, h2⟩ := suitedSuits_facts a ha
    exact key a h1 h2

/-- a run of pairwise disjoint repetition-free blocks has no repetition -/
theorem nodup_flatMap_range' (f : Nat → List (Nat × Nat)) (key : Nat × Nat → Nat) (a n : Nat)
    (hnd : ∀ k, a ≤ k → k < a + n → (f k).Nodup)
    (hkey : ∀ k, a ≤ k → k < a + n → ∀ p ∈ f k, key p = k) :
    ((List.range' a n).flatMap f).Nodup := by
  unfold List.Nodup
  rw [List.pairwise_flatMap]
  refine ⟨fun k hk => ?_, ?_⟩
  · have := List.mem_range'_1.mp hk
    exact hnd k this.1 this.2
  · have hp : (List.range' a n).Pairwise (· < ·) := List.pairwise_lt_range'
    refine hp.imp_of_mem ?_
    intro k k' hk hk' hlt p hp1 q hp2 e
    have hk := List.mem_range'_1.mp hk
    have hk' := List.mem_range'_1.mp hk'
    have e1 := hkey k hk.1 hk.2 p hp1
    have e2 := hkey k' hk'.1 hk'.2 q hp2
    rw [e] at e1
    omega

theorem denote_nodup (t : Spec.WfToken) (ht : t.wf = true) : t.denote.Nodup := by
  cases t with
  | pocket r => exact pocketCombos_nodup r
  | pocketPlus r =>
    simp only [Spec.WfToken.denote, List.range_eq_range']
    exact nodup_flatMap_range' _ (fun p => p.1 / 4) 0 (r + 1) (fun k _ _ => pocketCombos_nodup k)
      (fun k _ _ p hp => mem_pocketCombos hp)
  | pocketSpan hi lo =>
    exact nodup_flatMap_range' _ (fun p => p.1 / 4) hi (lo + 1 - hi) (fun k _ _ => pocketCombos_nodup k)
      (fun k _ _ p hp => mem_pocketCombos hp)
  | pair x y s =>
    simp only [Spec.WfToken.wf, Bool.and_eq_true, decide_eq_true_eq, bne_iff_ne] at ht
    exact pairCombos_nodup x y s ht.2
  | pairPlus x y s =>
    exact nodup_flatMap_range' _ (fun p => p.2 / 4) (x + 1) (y - x)
      (fun k hk _ => pairCombos_nodup x k s (by omega))
      (fun k hk _ p hp => mem_pairCombos (by omega) hp)
  | pairSpan x y z s =>
    simp only [Spec.WfToken.wf, Bool.and_eq_true, decide_eq_true_eq] at ht
    exact nodup_flatMap_range' _ (fun p => p.2 / 4) y (z + 1 - y)
      (fun k hk _ => pairCombos_nodup x k s (by omega))
      (fun k hk _ p hp => mem_pairCombos (by omega) hp)
  | cards c₁ c₂ => exact List.pairwise_singleton _ _

/-! ### which branch of the cascade takes which text -/

theorem suffix_head {suffix : Bytes} (hs : SuffixOk suffix) {x : Nat} {rest : Bytes} (h : suffix = x :: rest) :
    x = 58 := by
  rcases hs with rfl | ⟨w, rfl, _⟩
  · cases h
  · cases h; rfl

theorem so_cases (s : Bool) : Spec.so s = 115 ∨ Spec.so s = 111 := by cases s <;> simp [Spec.so]
theorem so_isSo (s : Bool) : isSoByte (Spec.so s) = true := by cases s <;> decide
theorem soPair_so (s : Bool) (h k : Nat) : soPair (Spec.so s) h k = if s then .suited h k else .ofsuit h k := by
  cases s <;> simp [soPair, Spec.so]

theorem rank_not_suit {b r s : Nat} (hr : IsRank b r) (hs : IsSuit b s) : False := by
  have key : ∀ b ∈ List.range 128, ¬ ((rankOfChar b).isSome = true ∧ (suitOfChar b).isSome = true) := by
    decide +kernel
  exact key b (List.mem_range.mpr hr.1) ⟨by simp [hr.2], by simp [hs.2]⟩

section parse
variable (wt : WText W)

theorem parse_pocket (r : Nat) (hr : r < 13) (suffix : Bytes) (hs : SuffixOk suffix) :
    parseToken wt (rankChar r :: rankChar r :: suffix) = .ok ⟨.singleRank (.pocket r), sufW wt suffix⟩ := by
  have ha := isRank_rankChar r hr
  have hws := (isWeightSuffix_iff suffix).mpr hs
  have h1 : brDoublePocket wt (rankChar r :: rankChar r :: suffix) = .next := by
    apply brDoublePocket_next; apply Bool.eq_false_iff.mpr; intro h
    obtain ⟨a, b, c, d, rest, ra, rb, rc, rd, heq, -⟩ := reDoublePocket_shape _ h
    simp only [List.cons.injEq] at heq
    have := suffix_head hs heq.2.2; omega
  have h2 : brDoubleRankPair wt (rankChar r :: rankChar r :: suffix) = .next := by
    apply brDoubleRankPair_next; apply Bool.eq_false_iff.mpr; intro h
    obtain ⟨a, b, x, c, d, y, rest, ra, rb, rc, rd, heq, -, -, hx, -⟩ := reDoubleRankPair_shape _ h
    simp only [List.cons.injEq] at heq
    have := suffix_head hs heq.2.2; subst this; revert hx; decide
  have h3 : brBottomPocket wt (rankChar r :: rankChar r :: suffix) = .next := by
    apply brBottomPocket_next; apply Bool.eq_false_iff.mpr; intro h
    obtain ⟨a, b, rest, ra, rb, heq, -⟩ := reBottomPocket_shape _ h
    simp only [List.cons.injEq] at heq
    have := suffix_head hs heq.2.2; omega
  have h4 : brBottomRankPair wt (rankChar r :: rankChar r :: suffix) = .next := by
    apply brBottomRankPair_next; apply Bool.eq_false_iff.mpr; intro h
    obtain ⟨a, b, x, rest, ra, rb, heq, -, -, hx, -⟩ := reBottomRankPair_shape _ h
    simp only [List.cons.injEq] at heq
    have := suffix_head hs heq.2.2; subst this; revert hx; decide
  rw [parseToken_unfold]
  simp only [parseToken.go, h1, h2, h3, h4, brSinglePocket_eq wt _ _ suffix r r ha ha hws, if_true]

theorem parse_pocketPlus (r : Nat) (hr : r < 13) (suffix : Bytes) (hs : SuffixOk suffix) :
    parseToken wt (rankChar r :: rankChar r :: 43 :: suffix) = .ok ⟨.bottomClosed (.pocket r), sufW wt suffix⟩ := by
  have ha := isRank_rankChar r hr
  have hws := (isWeightSuffix_iff suffix).mpr hs
  have h1 : brDoublePocket wt (rankChar r :: rankChar r :: 43 :: suffix) = .next := by
    apply brDoublePocket_next; apply Bool.eq_false_iff.mpr; intro h
    obtain ⟨a, b, c, d, rest, ra, rb, rc, rd, heq, -⟩ := reDoublePocket_shape _ h
    simp at heq
  have h2 : brDoubleRankPair wt (rankChar r :: rankChar r :: 43 :: suffix) = .next := by
    apply brDoubleRankPair_next; apply Bool.eq_false_iff.mpr; intro h
    obtain ⟨a, b, x, c, d, y, rest, ra, rb, rc, rd, heq, -, -, hx, -⟩ := reDoubleRankPair_shape _ h
    simp only [List.cons.injEq] at heq
    have := heq.2.2.1; subst this; revert hx; decide
  rw [parseToken_unfold]
  simp only [parseToken.go, h1, h2, brBottomPocket_eq wt _ _ suffix r r ha ha hws, if_true]

theorem parse_pocketSpan (hi lo : Nat) (h : hi ≤ lo) (hlo : lo < 13) (suffix : Bytes) (hs : SuffixOk suffix) :
    parseToken wt (rankChar hi :: rankChar hi :: 45 :: rankChar lo :: rankChar lo :: suffix)
      = .ok ⟨.doubleClosed (.pocket hi) lo, sufW wt suffix⟩ := by
  have ha := isRank_rankChar hi (by omega)
  have hc := isRank_rankChar lo hlo
  have hws := (isWeightSuffix_iff suffix).mpr hs
  rw [parseToken_unfold]
  simp only [parseToken.go, brDoublePocket_eq wt _ _ _ _ suffix hi hi lo lo ha ha hc hc hws, h, and_self,
    if_true]

theorem parse_pair (x y : Nat) (hx : x < 13) (hy : y < 13) (hxy : x ≠ y) (s : Bool) (suffix : Bytes)
    (hs : SuffixOk suffix) :
    parseToken wt (rankChar x :: rankChar y :: Spec.so s :: suffix)
      = .ok ⟨.singleRank (soPair (Spec.so s) x y), sufW wt suffix⟩ := by
  have ha := isRank_rankChar x hx
  have hb := isRank_rankChar y hy
  have hws := (isWeightSuffix_iff suffix).mpr hs
  have hso := so_cases s
  have h1 : brDoublePocket wt (rankChar x :: rankChar y :: Spec.so s :: suffix) = .next := by
    apply brDoublePocket_next; apply Bool.eq_false_iff.mpr; intro h
    obtain ⟨a, b, c, d, rest, ra, rb, rc, rd, heq, -⟩ := reDoublePocket_shape _ h
    simp only [List.cons.injEq] at heq
    omega
  have h2 : brDoubleRankPair wt (rankChar x :: rankChar y :: Spec.so s :: suffix) = .next := by
    apply brDoubleRankPair_next; apply Bool.eq_false_iff.mpr; intro h
    obtain ⟨a, b, x', c, d, y', rest, ra, rb, rc, rd, heq, -⟩ := reDoubleRankPair_shape _ h
    simp only [List.cons.injEq] at heq
    have := suffix_head hs heq.2.2.2; omega
  have h3 : brBottomPocket wt (rankChar x :: rankChar y :: Spec.so s :: suffix) = .next := by
    apply brBottomPocket_next; apply Bool.eq_false_iff.mpr; intro h
    obtain ⟨a, b, rest, ra, rb, heq, -⟩ := reBottomPocket_shape _ h
    simp only [List.cons.injEq] at heq
    omega
  have h4 : brBottomRankPair wt (rankChar x :: rankChar y :: Spec.so s :: suffix) = .next := by
    apply brBottomRankPair_next; apply Bool.eq_false_iff.mpr; intro h
    obtain ⟨a, b, x', rest, ra, rb, heq, -⟩ := reBottomRankPair_shape _ h
    simp only [List.cons.injEq] at heq
    have := suffix_head hs heq.2.2.2; omega
  have h5 : brSinglePocket wt (rankChar x :: rankChar y :: Spec.so s :: suffix) = .next := by
    apply brSinglePocket_next; apply Bool.eq_false_iff.mpr; intro h
    obtain ⟨a, b, rest, ra, rb, heq, -, -, hw⟩ := reSinglePocket_shape _ h
    simp only [List.cons.injEq] at heq
    rw [← heq.2.2] at hw
    rcases hso with e | e <;> rw [e] at hw <;> simp [isWeightSuffix] at hw
  rw [parseToken_unfold]
  simp only [parseToken.go, h1, h2, h3, h4, h5,
    brSingleRankPair_eq wt _ _ _ suffix x y ha hb (so_isSo s) hws, hxy, ne_eq, not_false_eq_true, if_true]

theorem parse_pairPlus (x y : Nat) (hxy : x < y) (hy : y < 13) (s : Bool) (suffix : Bytes)
    (hs : SuffixOk suffix) :
    parseToken wt (rankChar x :: rankChar y :: Spec.so s :: 43 :: suffix)
      = .ok ⟨.bottomClosed (soPair (Spec.so s) x y), sufW wt suffix⟩ := by
  have ha := isRank_rankChar x (by omega)
  have hb := isRank_rankChar y hy
  have hws := (isWeightSuffix_iff suffix).mpr hs
  have hso := so_cases s
  have h1 : brDoublePocket wt (rankChar x :: rankChar y :: Spec.so s :: 43 :: suffix) = .next := by
    apply brDoublePocket_next; apply Bool.eq_false_iff.mpr; intro h
    obtain ⟨a, b, c, d, rest, ra, rb, rc, rd, heq, -⟩ := reDoublePocket_shape _ h
    simp only [List.cons.injEq] at heq
    omega
  have h2 : brDoubleRankPair wt (rankChar x :: rankChar y :: Spec.so s :: 43 :: suffix) = .next := by
    apply brDoubleRankPair_next; apply Bool.eq_false_iff.mpr; intro h
    obtain ⟨a, b, x', c, d, y', rest, ra, rb, rc, rd, heq, -⟩ := reDoubleRankPair_shape _ h
    simp at heq
  have h3 : brBottomPocket wt (rankChar x :: rankChar y :: Spec.so s :: 43 :: suffix) = .next := by
    apply brBottomPocket_next; apply Bool.eq_false_iff.mpr; intro h
    obtain ⟨a, b, rest, ra, rb, heq, -⟩ := reBottomPocket_shape _ h
    simp only [List.cons.injEq] at heq
    omega
  rw [parseToken_unfold]
  simp only [parseToken.go, h1, h2, h3,
    brBottomRankPair_eq wt _ _ _ suffix x y ha hb (so_isSo s) hws, hxy, if_true]

theorem parse_pairSpan (x y z : Nat) (hxy : x < y) (hyz : y < z) (hz : z < 13) (s : Bool) (suffix : Bytes)
    (hs : SuffixOk suffix) :
    parseToken wt (rankChar x :: rankChar y :: Spec.so s :: 45 :: rankChar x :: rankChar z :: Spec.so s :: suffix)
      = .ok ⟨.doubleClosed (soPair (Spec.so s) x y) z, sufW wt suffix⟩ := by
  have ha := isRank_rankChar x (by omega)
  have hb := isRank_rankChar y (by omega)
  have hd := isRank_rankChar z hz
  have hws := (isWeightSuffix_iff suffix).mpr hs
  have hso := so_cases s
  have h1 : brDoublePocket wt
      (rankChar x :: rankChar y :: Spec.so s :: 45 :: rankChar x :: rankChar z :: Spec.so s :: suffix) = .next := by
    apply brDoublePocket_next; apply Bool.eq_false_iff.mpr; intro h
    obtain ⟨a, b, c, d, rest, ra, rb, rc, rd, heq, -⟩ := reDoublePocket_shape _ h
    simp only [List.cons.injEq] at heq
    omega
  rw [parseToken_unfold]
  simp only [parseToken.go, h1,
    brDoubleRankPair_eq wt _ _ _ _ _ _ suffix x y x z ha hb (so_isSo s) ha hd (so_isSo s) hws, hxy, hyz,
    and_self, if_true]

theorem parse_cards (r₁ s₁ r₂ s₂ : Nat) (hr₁ : r₁ < 13) (hs₁ : s₁ < 4) (hr₂ : r₂ < 13) (hs₂ : s₂ < 4)
    (hne : (⟨r₁, s₁⟩ : Card) ≠ ⟨r₂, s₂⟩) (suffix : Bytes) (hs : SuffixOk suffix) :
    parseToken wt (rankChar r₁ :: suitChar s₁ :: rankChar r₂ :: suitChar s₂ :: suffix)
      = .ok ⟨.singleCard (mkPair ⟨r₁, s₁⟩ ⟨r₂, s₂⟩), sufW wt suffix⟩ := by
  have ha := isRank_rankChar r₁ hr₁
  have hb := isRank_rankChar r₂ hr₂
  have hsa := isSuit_suitChar s₁ hs₁
  have hsb := isSuit_suitChar s₂ hs₂
  have hws := (isWeightSuffix_iff suffix).mpr hs
  have h1 : brDoublePocket wt (rankChar r₁ :: suitChar s₁ :: rankChar r₂ :: suitChar s₂ :: suffix) = .next := by
    apply brDoublePocket_next; apply Bool.eq_false_iff.mpr; intro h
    obtain ⟨a, b, c, d, rest, ra, rb, rc, rd, heq, -, hb', -⟩ := reDoublePocket_shape _ h
    simp only [List.cons.injEq] at heq
    rw [← heq.2.1] at hb'; exact rank_not_suit hb' hsa
  have h2 : brDoubleRankPair wt (rankChar r₁ :: suitChar s₁ :: rankChar r₂ :: suitChar s₂ :: suffix) = .next := by
    apply brDoubleRankPair_next; apply Bool.eq_false_iff.mpr; intro h
    obtain ⟨a, b, x', c, d, y', rest, ra, rb, rc, rd, heq, -, hb', -⟩ := reDoubleRankPair_shape _ h
    simp only [List.cons.injEq] at heq
    rw [← heq.2.1] at hb'; exact rank_not_suit hb' hsa
  have h3 : brBottomPocket wt (rankChar r₁ :: suitChar s₁ :: rankChar r₂ :: suitChar s₂ :: suffix) = .next := by
    apply brBottomPocket_next; apply Bool.eq_false_iff.mpr; intro h
    obtain ⟨a, b, rest, ra, rb, heq, -, hb', -⟩ := reBottomPocket_shape _ h
    simp only [List.cons.injEq] at heq
    rw [← heq.2.1] at hb'; exact rank_not_suit hb' hsa
  have h4 : brBottomRankPair wt (rankChar r₁ :: suitChar s₁ :: rankChar r₂ :: suitChar s₂ :: suffix) = .next := by
    apply brBottomRankPair_next; apply Bool.eq_false_iff.mpr; intro h
    obtain ⟨a, b, x', rest, ra, rb, heq, -, hb', -⟩ := reBottomRankPair_shape _ h
    simp only [List.cons.injEq] at heq
    rw [← heq.2.1] at hb'; exact rank_not_suit hb' hsa
  have h5 : brSinglePocket wt (rankChar r₁ :: suitChar s₁ :: rankChar r₂ :: suitChar s₂ :: suffix) = .next := by
    apply brSinglePocket_next; apply Bool.eq_false_iff.mpr; intro h
    obtain ⟨a, b, rest, ra, rb, heq, -, hb', -⟩ := reSinglePocket_shape _ h
    simp only [List.cons.injEq] at heq
    rw [← heq.2.1] at hb'; exact rank_not_suit hb' hsa
  have h6 : brSingleRankPair wt (rankChar r₁ :: suitChar s₁ :: rankChar r₂ :: suitChar s₂ :: suffix) = .next := by
    apply brSingleRankPair_next; apply Bool.eq_false_iff.mpr; intro h
    obtain ⟨a, b, x', rest, ra, rb, heq, -, hb', -⟩ := reSingleRankPair_shape _ h
    simp only [List.cons.injEq] at heq
    rw [← heq.2.1] at hb'; exact rank_not_suit hb' hsa
  rw [parseToken_unfold]
  simp only [parseToken.go, h1, h2, h3, h4, h5, h6,
    brSingleCardPair_eq wt _ _ _ _ suffix r₁ s₁ r₂ s₂ ha hsa hb hsb hws, hne, ne_eq, not_false_eq_true, if_true]

end parse

/-! ### the expansion lists what the token denotes -/

theorem map_pair_flatMap (l : List Nat) (mk : Nat → RankPair) (p : W) :
    (l.flatMap fun r => (mk r).combos.map fun cp => (cp, p))
      = (l.flatMap fun r => (mk r).combos).map fun cp => (cp, p) := by
  rw [List.map_flatMap]

theorem codes_flatMap (l : List Nat) (mk : Nat → RankPair) (f : Nat → List (Nat × Nat))
    (h : ∀ r, (mk r).combos.map comboCodes = f r) :
    (l.flatMap fun r => (mk r).combos).map comboCodes = l.flatMap f := by
  rw [List.map_flatMap]
  congr 1
  funext r
  exact h r

/-- **core of C05 (token)**: the text of a well-formed token, with a weight suffix, is parsed to a token whose
expansion lists exactly — and in the same order — the combos the token denotes, all with the parsed weight -/
theorem token_core (wt : WText W) (t : Spec.WfToken) (ht : t.wf = true) (suffix : Bytes) (hs : SuffixOk suffix) :
    ∃ (kind : TokenKind) (cs : List Combo), parseToken wt (t.text ++ suffix) = .ok ⟨kind, sufW wt suffix⟩
      ∧ (∀ p : W, (⟨kind, p⟩ : Token W).expand = .ok (cs.map fun c => (c, p)))
      ∧ cs.map comboCodes = t.denote := by
  cases t with
  | pocket r =>
    simp only [Spec.WfToken.wf, decide_eq_true_eq] at ht
    exact ⟨_, _, parse_pocket wt r ht suffix hs, fun p => rfl, codes_pocket r⟩
  | pocketPlus r =>
    simp only [Spec.WfToken.wf, decide_eq_true_eq] at ht
    refine ⟨_, (List.range' 0 (r + 1)).flatMap fun k => (RankPair.pocket k).combos,
      parse_pocketPlus wt r ht suffix hs, fun p => ?_, ?_⟩
    · rw [← map_pair_flatMap]
      exact expandRun_eq 0 r .pocket p (Nat.zero_le _) ht
    · rw [codes_flatMap _ _ Spec.pocketCombos codes_pocket]
      simp only [Spec.WfToken.denote, List.range_eq_range']
  | pocketSpan hi lo =>
    simp only [Spec.WfToken.wf, Bool.and_eq_true, decide_eq_true_eq] at ht
    refine ⟨_, (List.range' hi (lo + 1 - hi)).flatMap fun k => (RankPair.pocket k).combos,
      parse_pocketSpan wt hi lo ht.1 ht.2 suffix hs, fun p => ?_, ?_⟩
    · rw [← map_pair_flatMap]
      exact expandRun_eq hi lo .pocket p ht.1 ht.2
    · rw [codes_flatMap _ _ Spec.pocketCombos codes_pocket]
      rfl
  | pair x y s =>
    simp only [Spec.WfToken.wf, Bool.and_eq_true, decide_eq_true_eq, bne_iff_ne] at ht
    exact ⟨_, _, parse_pair wt x y ht.1.1 ht.1.2 ht.2 s suffix hs, fun p => rfl, codes_soPair x y s⟩
  | pairPlus x y s =>
    simp only [Spec.WfToken.wf, Bool.and_eq_true, decide_eq_true_eq] at ht
    refine ⟨_, (List.range' (x + 1) (y + 1 - (x + 1))).flatMap fun k => (soPair (Spec.so s) x k).combos,
      parse_pairPlus wt x y ht.1 ht.2 s suffix hs, fun p => ?_, ?_⟩
    · rw [← map_pair_flatMap]
      cases s
      · simp only [soPair_so, Bool.false_eq_true, if_false, Token.expand, rankNext_lt x (by omega)]
        exact expandRun_eq (x + 1) y (.ofsuit x) p (by omega) ht.2
      · simp only [soPair_so, if_true, Token.expand, rankNext_lt x (by omega)]
        exact expandRun_eq (x + 1) y (.suited x) p (by omega) ht.2
    · rw [codes_flatMap _ (fun k => soPair (Spec.so s) x k) (fun k => Spec.pairCombos x k s)
        (fun k => codes_soPair x k s)]
      simp only [Spec.WfToken.denote]
      rw [show y + 1 - (x + 1) = y - x by omega]
  | pairSpan x y z s =>
    simp only [Spec.WfToken.wf, Bool.and_eq_true, decide_eq_true_eq] at ht
    refine ⟨_, (List.range' y (z + 1 - y)).flatMap fun k => (soPair (Spec.so s) x k).combos,
      parse_pairSpan wt x y z ht.1.1 ht.1.2 ht.2 s suffix hs, fun p => ?_, ?_⟩
    · rw [← map_pair_flatMap]
      cases s
      · simp only [soPair_so, Bool.false_eq_true, if_false, Token.expand]
        exact expandRun_eq y z (.ofsuit x) p (by omega) ht.2
      · simp only [soPair_so, if_true, Token.expand]
        exact expandRun_eq y z (.suited x) p (by omega) ht.2
    · rw [codes_flatMap _ (fun k => soPair (Spec.so s) x k) (fun k => Spec.pairCombos x k s)
        (fun k => codes_soPair x k s)]
      rfl
  | cards c₁ c₂ =>
    simp only [Spec.WfToken.wf, Bool.and_eq_true, decide_eq_true_eq, bne_iff_ne] at ht
    obtain ⟨⟨h1, h2⟩, hne⟩ := ht
    have hcard : (⟨c₁ / 4, c₁ % 4⟩ : Card) ≠ ⟨c₂ / 4, c₂ % 4⟩ := by
      intro e
      simp only [Card.mk.injEq] at e
      omega
    refine ⟨_, [mkPair ⟨c₁ / 4, c₁ % 4⟩ ⟨c₂ / 4, c₂ % 4⟩],
      parse_cards wt (c₁ / 4) (c₁ % 4) (c₂ / 4) (c₂ % 4) (by omega) (by omega) (by omega) (by omega) hcard
        suffix hs, fun p => rfl, ?_⟩
    simp only [List.map_cons, List.map_nil, Spec.WfToken.denote,
      codes_mkPair (c₁ / 4) (c₁ % 4) (c₂ / 4) (c₂ % 4) (by omega) (by omega), Nat.div_add_mod]

end EspadaVerif.NotationToken
