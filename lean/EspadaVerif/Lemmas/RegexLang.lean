/-
Lemmas/RegexLang: a denotational semantics `Lang` for `Rx.Re`, the proof that `Rx.matches` decides it, and the
`Bool`-level equations for `matches` that the hand proofs in `Props/C09Regex` use.
-/
import EspadaVerif.Model.Regex

namespace EspadaVerif.Rx
open Re

/-- Kleene star of a language -/
inductive Star (P : List Nat → Prop) : List Nat → Prop
  | nil : Star P []
  | cons {x y : List Nat} : P x → Star P y → Star P (x ++ y)

/-- the language of an expression -/
def Lang : Re → List Nat → Prop
  | empty, _ => False
  | eps, s => s = []
  | cls bs, s => ∃ c, bs.contains c = true ∧ s = [c]
  | seq a b, s => ∃ x y, s = x ++ y ∧ Lang a x ∧ Lang b y
  | alt a b, s => Lang a s ∨ Lang b s
  | star a, s => Star (Lang a) s

theorem nullable_iff (r : Re) : nullable r = true ↔ Lang r [] := by
  induction r with
  | empty => simp [nullable, Lang]
  | eps => simp [nullable, Lang]
  | cls bs => simp [nullable, Lang]
  | seq a b iha ihb =>
    simp only [nullable, Lang, Bool.and_eq_true, iha, ihb]
    constructor
    · rintro ⟨ha, hb⟩
      exact ⟨[], [], rfl, ha, hb⟩
    · rintro ⟨x, y, h, ha, hb⟩
      cases x with
      | cons _ _ => simp at h
      | nil =>
        cases y with
        | cons _ _ => simp at h
        | nil => exact ⟨ha, hb⟩
  | alt a b iha ihb => simp only [nullable, Lang, Bool.or_eq_true, iha, ihb]
  | star a _ =>
    simp only [nullable, Lang, true_iff]
    exact Star.nil

/-- a non-empty word of `P*` starts with a non-empty word of `P` -/
theorem Star.cons_inv {P : List Nat → Prop} {t : List Nat} (h : Star P t) :
    ∀ c s, t = c :: s → ∃ x y, s = x ++ y ∧ P (c :: x) ∧ Star P y := by
  induction h with
  | nil => intro c s h; cases h
  | @cons x y px hs ih =>
    intro c s h
    cases x with
    | nil => exact ih c s (by simpa using h)
    | cons d x' =>
      simp only [List.cons_append, List.cons.injEq] at h
      obtain ⟨rfl, rfl⟩ := h
      exact ⟨x', y, rfl, px, hs⟩

theorem deriv_iff (c : Nat) (r : Re) : ∀ s, Lang (deriv c r) s ↔ Lang r (c :: s) := by
  induction r with
  | empty => intro s; simp [deriv, Lang]
  | eps => intro s; simp [deriv, Lang]
  | cls bs =>
    intro s
    simp only [deriv]
    cases h : bs.contains c with
    | true =>
      simp only [if_true, Lang]
      constructor
      · rintro rfl
        exact ⟨c, h, rfl⟩
      · rintro ⟨d, _, hd⟩
        simp only [List.cons.injEq] at hd
        exact hd.2
    | false =>
      simp only [Bool.false_eq_true, if_false, Lang, false_iff]
      rintro ⟨d, hd, hs⟩
      simp only [List.cons.injEq] at hs
      obtain ⟨rfl, _⟩ := hs
      rw [h] at hd
      cases hd
  | seq a b iha ihb =>
    intro s
    have key : (∃ x y, s = x ++ y ∧ Lang a (c :: x) ∧ Lang b y) ∨ (Lang a [] ∧ Lang b (c :: s)) ↔
        ∃ x y, c :: s = x ++ y ∧ Lang a x ∧ Lang b y := by
      constructor
      · rintro (⟨x, y, rfl, ha, hb⟩ | ⟨ha, hb⟩)
        · exact ⟨c :: x, y, rfl, ha, hb⟩
        · exact ⟨[], c :: s, rfl, ha, hb⟩
      · rintro ⟨x, y, h, ha, hb⟩
        cases x with
        | nil =>
          simp only [List.nil_append] at h
          subst h
          exact Or.inr ⟨ha, hb⟩
        | cons d x' =>
          simp only [List.cons_append, List.cons.injEq] at h
          obtain ⟨rfl, rfl⟩ := h
          exact Or.inl ⟨x', y, rfl, ha, hb⟩
    simp only [deriv]
    by_cases hn : nullable a = true
    · have hn' := (nullable_iff a).mp hn
      rw [if_pos hn]
      simp only [Lang, iha, ihb]
      rw [← key]
      simp [hn']
    · have hn' : ¬ Lang a [] := fun h => hn ((nullable_iff a).mpr h)
      rw [if_neg hn]
      simp only [Lang, iha]
      rw [← key]
      simp [hn']
  | alt a b iha ihb => intro s; simp only [deriv, Lang, iha, ihb]
  | star a iha =>
    intro s
    simp only [deriv, Lang, iha]
    constructor
    · rintro ⟨x, y, rfl, ha, hs⟩
      exact Star.cons (x := c :: x) ha hs
    · intro h
      exact Star.cons_inv h c s rfl

theorem matches_nil (r : Re) : Rx.matches r [] = nullable r := rfl

theorem matches_cons (r : Re) (c : Nat) (s : List Nat) :
    Rx.matches r (c :: s) = Rx.matches (deriv c r) s := rfl

/-- `matches` decides `Lang` -/
theorem matches_iff (r : Re) (s : List Nat) : Rx.matches r s = true ↔ Lang r s := by
  induction s generalizing r with
  | nil => exact nullable_iff r
  | cons c s ih => rw [matches_cons, ih, deriv_iff]

/-- two expressions with the same language are matched alike -/
theorem matches_congr {a b : Re} (h : ∀ s, Lang a s ↔ Lang b s) (s : List Nat) :
    Rx.matches a s = Rx.matches b s := by
  rw [Bool.eq_iff_iff, matches_iff, matches_iff]
  exact h s

/-! ### `Bool`-level equations -/

theorem matches_empty (s : List Nat) : Rx.matches empty s = false := by
  rw [Bool.eq_false_iff]
  intro h
  exact (matches_iff _ _).mp h

theorem matches_eps (s : List Nat) : Rx.matches eps s = s.isEmpty := by
  rw [Bool.eq_iff_iff, matches_iff]
  cases s <;> simp [Lang]

theorem matches_alt (a b : Re) (s : List Nat) :
    Rx.matches (alt a b) s = (Rx.matches a s || Rx.matches b s) := by
  rw [Bool.eq_iff_iff, Bool.or_eq_true, matches_iff, matches_iff, matches_iff]
  simp [Lang]

theorem matches_seq_iff (a b : Re) (s : List Nat) :
    Rx.matches (seq a b) s = true ↔ ∃ x y, s = x ++ y ∧ Rx.matches a x = true ∧ Rx.matches b y = true := by
  simp only [matches_iff, Lang]

theorem matches_seq_eps (b : Re) (s : List Nat) : Rx.matches (seq eps b) s = Rx.matches b s := by
  apply matches_congr
  intro t
  simp only [Lang]
  constructor
  · rintro ⟨x, y, rfl, rfl, h⟩
    exact h
  · intro h
    exact ⟨[], t, rfl, rfl, h⟩

theorem matches_seq_empty (b : Re) (s : List Nat) : Rx.matches (seq empty b) s = false := by
  rw [Bool.eq_false_iff]
  intro h
  obtain ⟨_, _, _, h, _⟩ := (matches_iff _ _).mp h
  exact h

/-- a class followed by `r`: the first byte is in the class and the rest matches `r` -/
theorem matches_cls_seq_cons (bs : List Nat) (r : Re) (c : Nat) (s : List Nat) :
    Rx.matches (seq (cls bs) r) (c :: s) = (bs.contains c && Rx.matches r s) := by
  rw [matches_cons]
  simp only [deriv, nullable]
  cases h : bs.contains c with
  | true => simp only [Bool.false_eq_true, if_false, if_true, matches_seq_eps, Bool.true_and]
  | false => simp only [Bool.false_eq_true, if_false, matches_seq_empty, Bool.false_and]

theorem matches_cls_seq_nil (bs : List Nat) (r : Re) : Rx.matches (seq (cls bs) r) [] = false := rfl

theorem matches_cls_nil (bs : List Nat) : Rx.matches (cls bs) [] = false := rfl

theorem matches_cls_cons (bs : List Nat) (c : Nat) (s : List Nat) :
    Rx.matches (cls bs) (c :: s) = (bs.contains c && s.isEmpty) := by
  rw [matches_cons]
  simp only [deriv]
  cases h : bs.contains c with
  | true => simp only [if_true, matches_eps, Bool.true_and]
  | false => simp only [Bool.false_eq_true, if_false, matches_empty, Bool.false_and]

/-- `[bs]*` -/
theorem matches_star_cls (bs : List Nat) (s : List Nat) :
    Rx.matches (star (cls bs)) s = s.all (fun c => bs.contains c) := by
  induction s with
  | nil => rfl
  | cons c s ih =>
    rw [matches_cons]
    simp only [deriv, List.all_cons]
    cases h : bs.contains c with
    | true => simp only [if_true, matches_seq_eps, ih, Bool.true_and]
    | false => simp only [Bool.false_eq_true, if_false, matches_seq_empty, Bool.false_and]

end EspadaVerif.Rx
