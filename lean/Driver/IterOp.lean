import Driver.Util
import EspadaVerif.Model.Iter
import EspadaVerif.Spec.Deals
import EspadaVerif.Spec.Poker
import EspadaVerif.Spec.ShowdownSpec

namespace Driver
open EspadaVerif

/-- f32 weights travel as bit patterns; the product is the hardware binary32 product -/
def f32Ops : WOps UInt32 :=
  { one := 0x3F800000, mul := fun a b => (Float32.ofBits a * Float32.ofBits b).toBits }

def showSd (sd : Showdown UInt32) (debug : Bool) : String :=
  let b := " ".intercalate (sd.board.map (fun c => toString c.code))
  let ps := " ".intercalate (sd.players.map (fun p => s!"{p.hole.code}:{p.hand}:{if p.win then 1 else 0}"))
  let wl := showRes toString (winnerLen sd debug)
  s!"some board={b} players={ps} wl={wl} prob={sd.prob.toNat}"

def fnv (h : UInt64) (s : String) : UInt64 :=
  s.toUTF8.foldl (fun h b => (h ^^^ b.toUInt64) * 0x100000001b3) h

/-- group key of a showdown string: its board (positions are compared group-wise, order inside a
position is not an observable of any property) -/
def groupKey (s : String) : String := ((s.splitOn " players=").getD 0 "")

/-- sort the strings inside each maximal run of equal board -/
def canonGroups (l : List String) : List String := Id.run do
  let mut out : Array String := #[]
  let mut cur : Array String := #[]
  let mut key : String := ""
  for s in l do
    let k := groupKey s
    if k != key then
      out := out ++ cur.qsort (· < ·)
      cur := #[]
      key := k
    cur := cur.push s
  out := out ++ cur.qsort (· < ·)
  return out.toList

def digestOf (l : List String) : String :=
  let h := (canonGroups l).foldl (fun h s => fnv (fnv h s) "\n") 0xcbf29ce484222325
  toString h.toNat

structure IterReq where
  debug : Bool
  mode : String
  nextra : Nat
  board : List (Option Card)
  scope : Nat × Nat × Nat × Nat
  setScope : Nat
  ranges : List (List (Combo × UInt32))

def parseBoard (l : List String) : List (Option Card) :=
  l.map fun t => if t == "-" then none else some (Card.ofCode t.toNat!)

partial def parseRanges (np : Nat) (toks : List String) : List (List (Combo × UInt32)) :=
  if np == 0 then [] else
  match toks with
  | n :: rest =>
    let k := n.toNat!
    let rec take (k : Nat) (ts : List String) (acc : List (Combo × UInt32)) : List (Combo × UInt32) × List String :=
      if k == 0 then (acc.reverse, ts) else
      match ts with
      | c :: w :: ts' => take (k - 1) ts' ((Combo.ofCode c.toNat!, (let b := w.toNat!.toUInt32; if b == 0x80000000 then 0 else b)) :: acc)
      | _ => (acc.reverse, [])
    let (es, rest') := take k rest []
    es :: parseRanges (np - 1) rest'
  | [] => []

def parseIter (a : List String) : Option IterReq :=
  match a with
  | dbg :: mode :: nx :: b0 :: b1 :: b2 :: b3 :: b4 :: tf :: rf :: tt :: rt :: ss :: np :: rest =>
    some { debug := dbg == "1", mode := mode, nextra := nx.toNat!, board := parseBoard [b0, b1, b2, b3, b4],
           scope := (tf.toNat!, rf.toNat!, tt.toNat!, rt.toNat!), setScope := ss.toNat!,
           ranges := parseRanges np.toNat! rest }
  | _ => none

def finish (mode : String) (strs : List String) (extra : String) : String :=
  let body := if mode == "full" then " all=" ++ ";".intercalate (canonGroups strs) else ""
  s!"ok n={strs.length} digest={digestOf strs} extra={extra}{body}"

/-- model answer -/
def opIter (a : List String) : String :=
  match parseIter a with
  | none => "bad-args"
  | some q =>
    let ev0 : Evaluator UInt32 := Evaluator.new q.board q.ranges
    let (tf, rf, tt, rt) := q.scope
    let evR : Res (Evaluator UInt32) :=
      match q.setScope with
      | 0 => .ok ev0
      | 1 => ev0.scope tf rf tt rt q.debug
      | _ => -- re-scoping: a first call with other values, then the real one (last call wins)
        match ev0.scope 3 7 20 30 q.debug with
        | .ok e => e.scope tf rf tt rt q.debug
        | r => r
    match evR with
    | .ok ev =>
      match ev.intoIter with
      | .ok s =>
        match drainFuel f32Ops 100000000 s [] with
        | .ok (sds, s') =>
          -- further `next()` calls after exhaustion
          let rec extras (k : Nat) (st : IterState UInt32) (acc : List String) : List String :=
            match k with
            | 0 => acc.reverse
            | k + 1 =>
              match next f32Ops st with
              | .ok (none, st') => extras k st' ("none" :: acc)
              | .ok (some _, st') => extras k st' ("some" :: acc)
              | _ => ("panic" :: acc).reverse
          finish q.mode (sds.map (showSd · q.debug)) (",".intercalate (extras q.nextra s' []))
        | .err => "diverged"
        | .panic => "panic"
      | _ => "panic"
    | _ => "panic"

/-- is `(t, r)` a position (turn < river < 49) or the terminal (48, 49)? -/
def validPos (p : Nat × Nat) : Bool := (p.1 < p.2 && p.2 < 49) || p == (48, 49)

/-- oracle: the list comprehension of Spec/Deals, when the request lies in the domain of C02/C04 -/
def specIter (a : List String) : Option String :=
  match parseIter a with
  | none => none
  | some q =>
    -- requests too large for the list-comprehension oracle still have the oracle of C08: the drain returns, no panic
    if q.mode == "digest-nospec" then some "all:nopanic" else
    match q.board with
    | [some f0, some f1, some f2, none, none] =>
      let flop := [f0.code, f1.code, f2.code]
      let (tf, rf, tt, rt) := if q.setScope == 0 then (0, 1, 48, 49) else q.scope
      let entries : List (List (Nat × Nat × UInt32)) :=
        q.ranges.map (·.map fun (cp, w) => (cp.fst.code, cp.snd.code, w))
      let wf := flop.Nodup && flop.all (· < 52)
        && validPos (tf, rf) && validPos (tt, rt) && Spec.posLe (tf, rf) (tt, rt)
        && q.ranges.all (fun es => (es.map (·.1)).Nodup && es.all (fun (cp, _) => cp.fst != cp.snd && Card.lt cp.fst cp.snd && cp.fst.valid && cp.snd.valid))
      if !wf then none else
      let ds := Spec.deals flop entries (tf, rf) (tt, rt)
      let strs := ds.map fun d =>
        let board := flop ++ [d.turn, d.river]
        let hands := d.choice.map fun (x, y, _) => Spec.best ((x :: y :: board).map fun c => (c / 4, c % 4))
        let wins := Spec.winnersOf hands
        let ps := " ".intercalate ((d.choice.zip (hands.zip wins)).map fun ((x, y, _), (h, w)) =>
          s!"{52 * x + y}:{h}:{if w then 1 else 0}")
        let wl := wins.countP id
        let prob := d.choice.foldl (fun p (_, _, w) => f32Ops.mul p w) f32Ops.one
        let wlS := if wl ≤ 255 then s!"ok {wl}" else if q.debug then "panic" else s!"ok {wl % 256}"
        s!"some board={" ".intercalate (board.map toString)} players={ps} wl={wlS} prob={prob.toNat}"
      let extra := ",".intercalate (List.replicate q.nextra "none")
      some ("=" ++ finish q.mode strs extra)
    | _ => none

end Driver
