import EspadaVerif.Model.Basic

namespace Driver
open EspadaVerif

def hexDigit (n : Nat) : Char := if n < 10 then Char.ofNat (48 + n) else Char.ofNat (87 + n)

def hex (bs : List Nat) : String :=
  if bs.isEmpty then "-" else String.ofList (bs.flatMap fun b => [hexDigit (b / 16), hexDigit (b % 16)])

def unhexDigit (c : Char) : Nat :=
  let n := c.toNat
  if 48 ≤ n && n ≤ 57 then n - 48 else if 97 ≤ n && n ≤ 102 then n - 87 else if 65 ≤ n && n ≤ 70 then n - 55 else 0

def unhexAux : List Char → List Nat
  | a :: b :: rest => (unhexDigit a * 16 + unhexDigit b) :: unhexAux rest
  | _ => []

def unhex (s : String) : List Nat := if s == "-" then [] else unhexAux s.toList

def showNats (l : List Nat) : String := " ".intercalate (l.map toString)

def showOptNat : Option Nat → String
  | none => "none"
  | some n => s!"some {n}"

def showRes {α} (f : α → String) : Res α → String
  | .ok a => let s := f a; if s.isEmpty then "ok" else s!"ok {s}"
  | .err => "err"
  | .panic => "panic"

end Driver
