/-
Line-protocol driver over the executable model (and specs).  One request per line on stdin, one
answer per line on stdout:  `<model answer>` or `<model answer>\t<spec answer>` when the property
has an independent executable specification for that operation.
Imports Model/Spec/Gen only (no Mathlib), so it links as a native executable.
-/
import Driver.Ops

open EspadaVerif

partial def loop (h : IO.FS.Stream) (out : IO.FS.Stream) : IO Unit := do
  let line ← h.getLine
  if line.isEmpty then return ()
  let toks := (line.trimAscii.toString.splitOn " ").filter (· ≠ "")
  match toks with
  | [] => out.putStrLn ""
  | op :: args => out.putStrLn (Driver.runOp op args)
  loop h out

def main : IO Unit := do
  let stdin ← IO.getStdin
  let stdout ← IO.getStdout
  loop stdin stdout
