import Driver.Util
import EspadaVerif.Model.Pair
import EspadaVerif.Spec.Cards
import EspadaVerif.Model.Eval
import EspadaVerif.Model.HandType
import EspadaVerif.Spec.Poker
import EspadaVerif.Model.Showdown
import EspadaVerif.Spec.ShowdownSpec
import Driver.IterOp
import Driver.TextOps

namespace Driver
open EspadaVerif

def cmpStr (lt eq : Bool) : String := if lt then "lt" else if eq then "eq" else "gt"

/-- canonical text of a showdown: board, then per player `hole-code hand win`, winner_len, probability bits -/
def showShowdown (sd : Showdown Nat) (debug : Bool) : String :=
  let b := " ".intercalate (sd.board.map (fun c => toString c.code))
  let ps := " ".intercalate (sd.players.map (fun p => s!"{p.hole.code}:{p.hand}:{if p.win then 1 else 0}"))
  let wl := showRes toString (winnerLen sd debug)
  s!"some board={b} players={ps} wl={wl} prob={sd.prob}"

def pairsOf : List Nat → List (Nat × Nat)
  | a :: b :: rest => (a, b) :: pairsOf rest
  | _ => []

/-- `showdown <debug 0/1> <prob bits> b0 b1 b2 b3 b4 p1a p1b p2a p2b ...` -/
def opShowdown (a : List String) : String :=
  let ns := a.map String.toNat!
  match ns with
  | dbg :: prob :: b0 :: b1 :: b2 :: b3 :: b4 :: rest =>
    let board := [b0, b1, b2, b3, b4].map Card.ofCode
    let players := (pairsOf rest).map (fun (x, y) => mkPair (Card.ofCode x) (Card.ofCode y))
    match showdownNew players board prob with
    | .ok (some sd) => showShowdown sd (dbg == 1)
    | .ok none => "none"
    | _ => "panic"
  | _ => "bad-args"

/-- oracle for `showdown` when the hole cards differ from the board and from each other (C03's domain),
or when some hole card lies on the board (then: no showdown) -/
def specShowdown (a : List String) : Option String :=
  let ns := a.map String.toNat!
  match ns with
  | _ :: prob :: b0 :: b1 :: b2 :: b3 :: b4 :: rest =>
    let board := [b0, b1, b2, b3, b4]
    let pairs := pairsOf rest
    let holes := pairs.flatMap (fun (x, y) => [x, y])
    if !board.Nodup then none
    else if pairs.any (fun (x, y) => x == y) then none
    else if holes.any (fun c => board.contains c) then
      -- the first colliding player ends the construction; earlier players must be well-formed
      some "=none"
    else if !holes.Nodup then none
    else
      let hands := pairs.map (fun (x, y) => Spec.best ([x, y, b0, b1, b2, b3, b4].map (fun c => (c / 4, c % 4))))
      let wins := Spec.winnersOf hands
      let ps := " ".intercalate ((pairs.zip (hands.zip wins)).map (fun ((x, y), (h, w)) =>
        s!"{52 * min x y + max x y}:{h}:{if w then 1 else 0}"))
      let wl := wins.countP id
      let bs := " ".intercalate (board.map toString)
      some s!"=some board={bs} players={ps} wl=ok {wl} prob={prob}"
  | _ => none

/-- all seven-card sets whose three lowest codes are `x < y < z`, each in an order chosen by its card sum (the same
order the harness uses); `f` maps the presented cards to (index, category) -/
def blockFold (x y z : Nat) (f : List Nat → Nat × Nat) : Nat × UInt64 × Array Nat := Id.run do
  let mut h : UInt64 := 0xcbf29ce484222325
  let mut cnt := 0
  let mut cats : Array Nat := Array.replicate 10 0
  for d in [z + 1 : 52] do
    for e in [d + 1 : 52] do
      for ff in [e + 1 : 52] do
        for g in [ff + 1 : 52] do
          let cs := [x, y, z, d, e, ff, g]
          let rot := (x + y + z + d + e + ff + g) % 7
          let cs := cs.drop rot ++ cs.take rot
          let cs := if (d + g) % 2 == 1 then
              match cs with
              | [c0, c1, c2, c3, c4, c5, c6] => [c0, c5, c2, c3, c4, c1, c6]
              | l => l
            else cs
          let (idx, cat) := f cs
          h := (h ^^^ idx.toUInt64) * 0x100000001b3
          cats := cats.modify (min cat 9) (· + 1)
          cnt := cnt + 1
  return (cnt, h, cats)

def showBlock (r : Nat × UInt64 × Array Nat) : String :=
  let (cnt, h, cats) := r
  s!"ok n={cnt} digest={h.toNat} cats={",".intercalate ((cats.toList.take 9).map toString)} other={cats.getD 9 0}"

/-- every Unicode scalar value accepted by a `try_from(char)` model, "cp:index" (surrogates are not `char`s) -/
def tabChars (f : Nat → Option Nat) : String :=
  ",".intercalate (((List.range 0x110000).filter fun c => c < 0xD800 || 0xDFFF < c).filterMap fun c => (f c).map fun i => s!"{c}:{i}")

def runOp1 (op : String) (a : List String) : Option String :=
  let n (i : Nat) : Nat := (a.getD i "0").toNat!
  match op with
  | "tab_rank_chars" => some (tabChars rankOfChar)
  | "tab_suit_chars" => some (tabChars suitOfChar)
  | "rank_u8" => some (toString (rankU8 (n 0)))
  | "suit_u8" => some (toString (suitU8 (n 0)))
  | "rank_char" => some (toString (rankChar (n 0)))
  | "suit_char" => some (toString (suitChar (n 0)))
  | "rank_next" => some (showOptNat (rankNext (n 0)))
  | "rank_prev" => some (showOptNat (rankPrev (n 0)))
  | "rank_cmp" => some (cmpStr (n 0 < n 1) (n 0 == n 1))
  | "suit_cmp" => some (cmpStr (n 0 < n 1) (n 0 == n 1))
  | "card_cmp" =>
    let x := Card.ofCode (n 0); let y := Card.ofCode (n 1)
    some (cmpStr (Card.lt x y) (x == y))
  | "u64_of_card" => some (toString (u64OfCard (Card.ofCode (n 0))))
  | "card_of_u64" => some (showRes (fun c => toString c.code) (cardOfU64 (n 0)))
  | "card_bits_rt" =>
    let c := Card.ofCode (n 0)
    let bits := u64OfCard c
    let shared := (List.range 52).filter fun d => d != n 0 && u64OfCard (Card.ofCode d) == bits
    some (showRes (fun b => s!"{b.code} distinct={if shared.isEmpty then 1 else 0}") (cardOfU64 bits))
  | "show_card" => some (hex (showCard (Card.ofCode (n 0))))
  | "show_rank" => some (hex [rankChar (n 0)])
  | "show_suit" => some (hex [suitChar (n 0)])
  | "parse_rank" => some (showRes toString (parseRank (unhex (a.getD 0 "-"))))
  | "parse_suit" => some (showRes toString (parseSuit (unhex (a.getD 0 "-"))))
  | "parse_card" => some (showRes (fun c => toString c.code) (parseCard (unhex (a.getD 0 "-"))))
  | "parse_pair" => some (showRes (fun p => toString p.code) (parsePair (unhex (a.getD 0 "-"))))
  | "rank_range" => some (showRes showNats (rankRange (n 0) (n 1) (n 2 == 1)))
  | "rank_all" => some (showRes showNats rankRangeAll)
  | "suit_range" => some (showRes showNats (suitRange (n 0) (n 1) (n 2 == 1)))
  | "suit_all" => some (showRes showNats suitRangeAll)
  | "mk_pair" =>
    let x := Card.ofCode (n 0); let y := Card.ofCode (n 1)
    let p := mkPair x y; let q := mkPair y x
    -- hsym: the derived hash is a function of the stored fields, so it is symmetric iff the values are equal
    some s!"{p.fst.code} {p.snd.code} eqsym={if p == q then 1 else 0} hsym={if p == q then 1 else 0} le={if Card.le p.fst p.snd then 1 else 0}"
  | "show_pair" => some (hex (showPair (mkPair (Card.ofCode (n 0)) (Card.ofCode (n 1)))))
  | "pair_index" =>
    some (showRes (fun c => toString c.code) ((mkPair (Card.ofCode (n 0)) (Card.ofCode (n 1))).index (n 2)))
  | "cmp7" =>
    let cs := a.map (fun t => Card.ofCode t.toNat!)
    -- `MadeHand` derives Eq/Ord on the index and implements PartialOrd through `power_index()`
    (match eval7 (cs.take 7), eval7 (cs.drop 7) with
     | .ok i, .ok j => some s!"ok cmp={cmpStr (i < j) (i == j)} partial={cmpStr (i < j) (i == j)} eq={if i == j then 1 else 0} lt={if i < j then 1 else 0}"
     | _, _ => some "panic")
  | "eval7_block" =>
    some (showBlock (blockFold (n 0) (n 1) (n 2) fun cs =>
      match eval7 (cs.map Card.ofCode) with
      | .ok i => (i, handType i)
      | _ => (0, 9)))
  | "showdown" => some (opShowdown a)
  | "iter" => some (opIter a)
  | "eval7" =>
    let cs := a.map (fun t => Card.ofCode t.toNat!)
    some (showRes (fun i => s!"{i} {Gen.categoryNames.getD (handType i) "?"}") (eval7 cs))
  | _ => none

end Driver

namespace Driver
open EspadaVerif

/-- oracle column: what the property demands of the implementation's answer, from `Spec` only.
`=<text>` exact answer; `pow2<52` a single bit among the low 52; absent when the property does
not fix the answer of this request. -/
def specOp1 (op : String) (a : List String) : Option String :=
  let n (i : Nat) : Nat := (a.getD i "0").toNat!
  let optS (o : Option Nat) : String := match o with | some c => s!"=ok {c}" | none => "=err"
  match op with
  | "rank_u8" => some s!"={n 0}"
  | "suit_u8" => some s!"={n 0}"
  | "rank_char" => some s!"={Spec.rankChars.getD (n 0) 0}"
  | "suit_char" => some s!"={Spec.suitChars.getD (n 0) 0}"
  | "show_rank" => some s!"={hex [Spec.rankChars.getD (n 0) 0]}"
  | "show_suit" => some s!"={hex [Spec.suitChars.getD (n 0) 0]}"
  | "rank_next" => some (if n 0 + 1 < 13 then s!"=some {n 0 + 1}" else "=none")
  | "rank_prev" => some (if 0 < n 0 then s!"=some {n 0 - 1}" else "=none")
  | "rank_cmp" => some ("=" ++ cmpStr (n 0 < n 1) (n 0 == n 1))
  | "suit_cmp" => some ("=" ++ cmpStr (n 0 < n 1) (n 0 == n 1))
  | "card_cmp" => some ("=" ++ cmpStr (n 0 < n 1) (n 0 == n 1))
  | "u64_of_card" => some "pow2<52"
  | "card_bits_rt" => some s!"=ok {n 0} distinct=1"
  | "show_card" => some s!"={hex (Spec.cardText (n 0))}"
  | "parse_card" =>
    let t := unhex (a.getD 0 "-")
    -- C13 fixes the answer for ASCII texts of length ≤ 2 only
    if t.length ≤ 2 && t.all (· < 128) then some (optS (Spec.cardOfText t)) else some "all:[C09]nopanic"
  -- C09: the rank and suit parsers return normally on every string (their value is compared with the model's)
  | "parse_rank" => some "all:[C09]nopanic"
  | "parse_suit" => some "all:[C09]nopanic"
  | "rank_range" => if n 0 ≤ n 1 then some ("=" ++ showRes showNats (.ok (Spec.run (n 0) (n 1) (n 2 == 1)))) else none
  | "suit_range" => if n 0 ≤ n 1 then some ("=" ++ showRes showNats (.ok (Spec.run (n 0) (n 1) (n 2 == 1)))) else none
  | "rank_all" => some ("=" ++ showRes showNats (.ok (List.range 13)))
  | "suit_all" => some ("=" ++ showRes showNats (.ok (List.range 4)))
  | "mk_pair" =>
    if n 0 == n 1 then none else
    some s!"={min (n 0) (n 1)} {max (n 0) (n 1)} eqsym=1 hsym=1 le=1"
  | "show_pair" =>
    if n 0 == n 1 then none else
    some s!"={hex (Spec.cardText (min (n 0) (n 1)) ++ Spec.cardText (max (n 0) (n 1)))}"
  | "parse_pair" =>
    let t := unhex (a.getD 0 "-")
    match t with
    | [a1, a2, b1, b2] =>
      match Spec.cardOfText [a1, a2], Spec.cardOfText [b1, b2] with
      | some x, some y => if x == y then some "all:[C09]nopanic" else some s!"=ok {52 * min x y + max x y}"
      | _, _ => some "all:[C09]nopanic"
    | _ => some "all:[C09]nopanic"
  | "cmp7" =>
    -- the hand whose best five cards are stronger under the rule book compares as smaller; equal strength = tie
    let cs := a.map (fun t => (t.toNat! / 4, t.toNat! % 4))
    let sa := Spec.bestStrength (cs.take 7)
    let sb := Spec.bestStrength (cs.drop 7)
    some s!"=ok cmp={cmpStr (sa > sb) (sa == sb)} partial={cmpStr (sa > sb) (sa == sb)} eq={if sa == sb then 1 else 0} lt={if sa > sb then 1 else 0}"
  | "eval7_block" =>
    some ("=" ++ showBlock (blockFold (n 0) (n 1) (n 2) fun cs =>
      let b := Spec.best (cs.map fun c => (c / 4, c % 4))
      (b, Spec.catOfClass b)))
  | "showdown" => specShowdown a
  | "iter" => specIter a
  | "eval7" =>
    let cs := a.map (fun t => (t.toNat! / 4, t.toNat! % 4))
    let b := Spec.best cs
    some s!"=ok {b} {Spec.categoryNames.getD (Spec.catOfClass b) "?"}"
  | _ => none

def runOp (op : String) (a : List String) : String :=
  let m := match runOp1 op a with
    | some s => s
    | none => match textOp op a with
      | some s => s
      | none => s!"bad-op {op}"
  let sp := match specOp1 op a with
    | some s => some s
    | none => textSpec op a
  match sp with
  | some s => m ++ "\t" ++ s
  | none => m
end Driver
