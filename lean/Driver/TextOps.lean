import Driver.Util
import Driver.F32Text
import Driver.IterOp
import EspadaVerif.Model.Range
import EspadaVerif.Spec.Notation
import EspadaVerif.Spec.RangeViews
import EspadaVerif.Model.Scopes

namespace Driver
open EspadaVerif

def f32Eq (a b : UInt32) : Bool := Float32.ofBits a == Float32.ofBits b

def f32Text : WText UInt32 :=
  { one := 0x3F800000, eq := f32Eq, showW := showF32, parseW := parseF32 }

def inUnit (w : UInt32) : Bool :=
  let f := Float32.ofBits w
  (0.0 : Float32) ≤ f && f ≤ (1.0 : Float32)

def entryBad (e : Combo × UInt32) : Bool := e.1.fst == e.1.snd || !inUnit e.2

def sortEntries (l : List (Nat × Nat)) : List (Nat × Nat) :=
  (l.toArray.qsort (fun a b => a.1 < b.1 || (a.1 == b.1 && a.2 < b.2))).toList

def fmtEntries (l : List (Nat × Nat)) : String :=
  if l.isEmpty then "-" else ",".intercalate ((sortEntries l).map fun (c, w) => s!"{c}:{w}")

def fmtEntriesOrdered (l : List (Nat × Nat)) : String :=
  if l.isEmpty then "-" else ",".intercalate (l.map fun (c, w) => s!"{c}:{w}")

def entriesOf (l : List (Combo × UInt32)) : List (Nat × Nat) := l.map fun (cp, w) => (cp.code, w.toNat)

def rpKey : RankPair → String
  | .pocket r => s!"P{r}"
  | .suited h k => s!"S{h}.{k}"
  | .ofsuit h k => s!"O{h}.{k}"

def sortStrings (l : List String) : List String := (l.toArray.qsort (· < ·)).toList

def resStr (f : α → String) : Res α → String
  | .ok a => f a
  | .err => "err"
  | .panic => "panic"

/-- a set of token texts: sorted, without repetition, hex, '.'-separated -/
def setText (l : List (List Nat)) : String :=
  let v := (sortStrings (l.map hex)).eraseDups
  if v.isEmpty then "-" else ".".intercalate v

def isCardTok (t : Token UInt32) : Bool := match t.kind with | .singleCard _ => true | _ => false

/-- number of legal deals at the first three positions of flop 2h 2d 2c with this single range (any entry order) -/
def evalProbe (contents : List (Combo × UInt32)) : String :=
  -- two fixed ranges sharing the ace of spades (AsKs | AsQs:0.5, 7d6d) before the range under test
  let f1 : List (Combo × UInt32) := [(mkPair ⟨0, 0⟩ ⟨1, 0⟩, 0x3F800000)]
  let f2 : List (Combo × UInt32) := [(mkPair ⟨0, 0⟩ ⟨2, 0⟩, 0x3F000000), (mkPair ⟨7, 2⟩ ⟨8, 2⟩, 0x3F800000)]
  let ev : Evaluator UInt32 := { board := [some ⟨12, 1⟩, some ⟨12, 2⟩, some ⟨12, 3⟩, none, none], ranges := [f1, f2, contents],
                                 turnFrom := 40, riverFrom := 41, turnTo := 40, riverTo := 44 }
  match ev.intoIter with
  | .ok s =>
    match drainFuel f32Ops 100000000 s [] with
    | .ok (sds, _) =>
      let badp := sds.countP fun sd => !inUnit sd.prob
      let dup := sds.countP fun sd =>
        let cs := sd.board.map (·.code) ++ sd.players.flatMap fun p => [p.hole.fst.code, p.hole.snd.code]
        cs.eraseDups.length != cs.length
      s!"ok n={sds.length} badprob={badp} dup={dup}"
    | _ => "panic"
  | _ => "panic"

/-- everything observable about a range (same layout as the harness) -/
def describeRange (r : HandRange UInt32) (withEval : Bool) : String :=
  let contents := HandRange.contents r
  let bad := contents.countP entryBad
  let toksR := showRangeTokens f32Text r
  let text := resStr (fun toks => hex (joinCommas (toks.map (Token.show f32Text)))) toksR
  let rptext := resStr (fun toks => hex (joinCommas ((toks.filter (!isCardTok ·)).map (Token.show f32Text)))) toksR
  let octext := resStr (fun toks => setText ((toks.filter isCardTok).map (Token.show f32Text))) toksR
  let reparse : String :=
    match toksR with
    | .ok toks =>
      match parseRange f32Text (joinCommas (toks.map (Token.show f32Text))) with
      | .ok r' =>
        let c' := HandRange.contents r'
        -- `HandRange == HandRange`: same keys, values `==` as f32
        let eq := c'.length == contents.length && contents.all fun (k, v) =>
          match HandRange.lookup r' k with
          | some v' => f32Eq v v'
          | none => false
        if eq then "1" else "0"
      | .err => "err"
      | .panic => "panic"
    | _ => "panic"
  let rp := resStr (fun l => if l.isEmpty then "-" else ",".intercalate (sortStrings (l.map fun (k, w) => s!"{rpKey k}:{w.toNat}")))
    (rankPairs f32Text r)
  let orph := resStr (fun o => fmtEntries (entriesOf (HandRange.contents o))) (orphans f32Text r)
  let base := s!"ok n={contents.length} map={fmtEntries (entriesOf contents)} bad={bad} text={text} rptext={rptext} octext={octext} rp={rp} orph={orph} reparse={reparse}"
  if withEval then base ++ s!" ev={evalProbe contents}" else base

def opParseToken (a : List String) : String :=
  match parseToken f32Text (unhex (a.getD 0 "-")) with
  | .err => "err"
  | .panic => "panic"
  | .ok tok =>
    let show_ := hex (tok.show f32Text)
    match tok.expand with
    | .ok es =>
      let bad := es.countP entryBad
      s!"ok show={show_} expand={fmtEntriesOrdered (entriesOf es)} set={fmtEntries (entriesOf es)} bad={bad}"
    | _ => s!"ok show={show_} expand=panic set=- bad=-"

def opTokenRoundtrip (a : List String) : String :=
  match parseToken f32Text (unhex (a.getD 0 "-")) with
  | .err => "err"
  | .panic => "panic"
  | .ok tok =>
    let t := tok.show f32Text
    match parseToken f32Text t with
    | .ok tok2 => s!"ok rt={if tok2.kind == tok.kind && f32Eq tok2.prob tok.prob then 1 else 0} show={hex t}"
    | .err => s!"ok rt=err show={hex t}"
    | .panic => "panic"

def opParseRange (a : List String) : String :=
  match parseRange f32Text (unhex (a.getD 0 "-")) with
  | .ok r => describeRange r true
  | .err => "err"
  | .panic => "panic"

/-- `FromIterator<(CardPair, f32)>` as repaired (D11): `if p == 0.0 { 0.0 } else { p }` -/
def normNegZero (w : UInt32) : UInt32 := if w == 0x80000000 then 0 else w

def listedEntries : List String → List (Combo × UInt32)
  | c :: w :: rest =>
    let p := Combo.ofCode c.toNat!
    (mkPair p.fst p.snd, normNegZero w.toNat!.toUInt32) :: listedEntries rest
  | _ => []

def opRangeOps (a : List String) : String :=
  let es := listedEntries (a.drop 1)
  describeRange (es.foldl (fun m e => HandRange.insert m e.1 e.2) []) false

/-- range_views n (combo wbits)* : only the two views (any weights: nothing is printed as text) -/
def opRangeViews (a : List String) : String :=
  let es := listedEntries (a.drop 1)
  let r : HandRange UInt32 := es.foldl (fun m e => HandRange.insert m e.1 e.2) []
  let rp := resStr (fun l => if l.isEmpty then "-" else ",".intercalate (sortStrings (l.map fun (k, w) => s!"{rpKey k}:{w.toNat}")))
    (rankPairs f32Text r)
  let orph := resStr (fun o => fmtEntries (entriesOf (HandRange.contents o))) (orphans f32Text r)
  s!"ok rp={rp} orph={orph}"

def opCanon (a : List String) : String :=
  let es := listedEntries (a.drop 2)
  let r : HandRange UInt32 := es.foldl (fun m e => HandRange.insert m e.1 e.2) []
  -- the model prints a range from its contents only (it never sees a construction history)
  let text := resStr (fun b => hex b) (showRange f32Text r)
  s!"same=1 histories=8 text={text}"

/-! ### oracle columns -/

/-- weight suffix `:W` with `W` in the standard grammar `0(.d+)?` / `1(.0+)?` (or no suffix): its value -/
def specWeight (suffix : List Nat) : Option UInt32 :=
  match suffix with
  | [] => some 0x3F800000
  | 58 :: w => if isWeightText w then parseF32 w else none
  | _ => none

/-- split a token text at its first ':' -/
def splitColon (t : List Nat) : List Nat × List Nat := (t.takeWhile (· != 58), t.dropWhile (· != 58))

def specTokenSet (t : List Nat) : Option (List (Nat × Nat)) :=
  let (body, suffix) := splitColon t
  match Spec.readToken body, specWeight suffix with
  | some tok, some w => some (tok.denote.map fun (x, y) => (52 * x + y, w.toNat))
  | _, _ => none

def specParseToken (a : List String) : Option String :=
  let t := unhex (a.getD 0 "-")
  match specTokenSet t with
  | some set => some s!"all:[C09]nopanic;;[C05]has: set={fmtEntries set} ;;[C10]has: bad=0"
  | none => some "all:[C09]nopanic;;[C10]nobad"

def splitOn44 (s : List Nat) : List (List Nat) := splitCommas s

def specParseRange (a : List String) : Option String :=
  let s := (unhex (a.getD 0 "-")).filter (· != 32)
  let pieces := if s.isEmpty then [] else splitOn44 s
  let sets := pieces.map specTokenSet
  if sets.all Option.isSome then
    -- well-formed token list: later tokens overwrite earlier ones
    let final : List (Nat × Nat) := (sets.filterMap id).foldl (fun m set =>
      set.foldl (fun m (c, w) => (c, w) :: m.filter (fun e => e.1 != c)) m) []
    some s!"all:[C09]nopanic;;[C05]has: n={final.length} map={fmtEntries final} ;;[C10]has: bad=0 ;;[C06]has: reparse=1;;[C10]has:badprob=0 dup=0"
  else some "all:[C09]nopanic;;[C10]has: bad=0 ;;[C06]has: reparse=1;;[C10]has:badprob=0 dup=0"

def specContents (es : List (Combo × UInt32)) : Spec.Contents UInt32 :=
  es.foldl (fun m e => ((e.1.fst.code, e.1.snd.code), e.2) :: m.filter (fun x => x.1 != (e.1.fst.code, e.1.snd.code))) []

def specRpKey : Spec.RP → String
  | .pocket r => s!"P{r}"
  | .suited h k => s!"S{h}.{k}"
  | .ofsuit h k => s!"O{h}.{k}"

/-- expected text of the rank-pair part: maximal runs per row -/
def specRpText (m : Spec.Contents UInt32) : List Nat :=
  let wsuffix (w : UInt32) : List Nat := if f32Eq w 0x3F800000 then [] else [58] ++ showF32 w
  let rowToks (row : List (Option UInt32)) (mkText : Nat → List Nat) (spanText : Nat → Nat → List Nat) : List (List Nat) :=
    (Spec.runs f32Eq row).map fun (s, n, w) => Spec.runText mkText spanText (s, n, ()) ++ wsuffix w
  let pockets := rowToks ((List.range 13).map fun r => Spec.reported f32Eq m (.pocket r))
    (fun i => [Spec.rl i, Spec.rl i]) (fun i j => [Spec.rl i, Spec.rl i, 45, Spec.rl j, Spec.rl j])
  let rows := (List.range 12).flatMap fun h =>
    let ks := List.range' (h + 1) (12 - h)
    rowToks (ks.map fun k => Spec.reported f32Eq m (.suited h k))
      (fun i => [Spec.rl h, Spec.rl (h + 1 + i), 115]) (fun i j => [Spec.rl h, Spec.rl (h + 1 + i), 115, 45, Spec.rl h, Spec.rl (h + 1 + j), 115])
    ++ rowToks (ks.map fun k => Spec.reported f32Eq m (.ofsuit h k))
      (fun i => [Spec.rl h, Spec.rl (h + 1 + i), 111]) (fun i j => [Spec.rl h, Spec.rl (h + 1 + i), 111, 45, Spec.rl h, Spec.rl (h + 1 + j), 111])
  joinCommas (pockets ++ rows)

/-- expected leftover part of the text: one single-combo token per leftover combo (a set: the order and repetition of
leftover tokens is not fixed by the property) -/
def specOrphText (orph : List ((Nat × Nat) × UInt32)) : String :=
  setText (orph.map fun ((x, y), w) =>
    (Spec.WfToken.cards x y).text ++ (if f32Eq w 0x3F800000 then [] else [58] ++ showF32 w))

def specRangeOps (a : List String) : Option String :=
  let es := listedEntries (a.drop 1)
  let proper := es.all fun e => !entryBad e && Card.lt e.1.fst e.1.snd && e.1.fst.valid && e.1.snd.valid
  if !proper then some "all:[C09]nopanic" else
  let m := specContents es
  let rp := Spec.rankPairView f32Eq m
  let rpS := if rp.isEmpty then "-" else ",".intercalate (sortStrings (rp.map fun (k, w) => s!"{specRpKey k}:{w.toNat}"))
  let orph := Spec.orphanView f32Eq m
  let orphS := fmtEntries (orph.map fun ((x, y), w) => (52 * x + y, w.toNat))
  some s!"all:[C09]nopanic;;[C12]has: rp={rpS} orph={orphS} ;;[C06]has: reparse=1;;[C17]has: rptext={hex (specRpText m)} octext={specOrphText orph} "

/-- C12 speaks about ANY range: the two views are specified for every weight (under `f32 ==` a NaN-weighted rank pair is
never reported; weights above 1 or below 0 are ordinary weights) -/
def specRangeViews (a : List String) : Option String :=
  let es := listedEntries (a.drop 1)
  let combosOk := es.all fun e => Card.lt e.1.fst e.1.snd && e.1.fst.valid && e.1.snd.valid
  if !combosOk then some "all:[C09]nopanic" else
  let m := specContents es
  let rp := Spec.rankPairView f32Eq m
  let rpS := if rp.isEmpty then "-" else ",".intercalate (sortStrings (rp.map fun (k, w) => s!"{specRpKey k}:{w.toNat}"))
  let orphS := fmtEntries ((Spec.orphanView f32Eq m).map fun ((x, y), w) => (52 * x + y, w.toNat))
  some s!"=ok rp={rpS} orph={orphS}"

def specCanon (_a : List String) : Option String := some "all:nopanic;;has:same=1 "

/-- split the arguments of `c15` at the `|` separators -/
def splitBars (l : List String) : List (List String) :=
  let rec go : List String → List String → List (List String)
    | [], cur => if cur.isEmpty then [] else [cur.reverse]
    | t :: rest, cur => if t == "|" then (if cur.isEmpty then go rest [] else cur.reverse :: go rest []) else go rest (t :: cur)
  go l []

/-- number of showdowns of one iterator request (independent of the entry order) -/
def iterCount (a : List String) : Option Nat :=
  match parseIter a with
  | none => none
  | some q =>
    let ev0 : Evaluator UInt32 := Evaluator.new q.board q.ranges
    let (tf, rf, tt, rt) := q.scope
    let evR : Res (Evaluator UInt32) := if q.setScope == 0 then .ok ev0 else ev0.scope tf rf tt rt q.debug
    match evR with
    | .ok ev =>
      match ev.intoIter with
      | .ok s =>
        match drainFuel f32Ops 100000000 s [] with
        | .ok (sds, _) => some sds.length
        | _ => none
      | _ => none
    | _ => none

/-- the model has no notion of interleaving beyond `C15_interleave`: every instance yields its solo sequence -/
def opC15 (a : List String) : String :=
  let reqs := splitBars (a.drop 2)
  let ns := reqs.map iterCount
  if ns.all Option.isSome then
    s!"ok k={reqs.length} inter=1 threads=1 n={",".intercalate (ns.map fun n => toString (n.getD 0))}"
  else "panic"

/-- the example's f32 pipeline: `x = 48 - 48 * sqrt(1 - (i + 1) / n)`; `floor(x) as u8`; `ceil((48 - turn) * (x % 1)) as u8`
(`x % 1.0` is `x - floor x` for the non-negative `x` that occur for n ≤ 2^24) -/
def scopeF (i n : Nat) : Nat × Nat :=
  let q : Float32 := (Float32.ofNat i + 1.0) / Float32.ofNat n
  let x : Float32 := 48.0 - 48.0 * Float32.sqrt (1.0 - q)
  let t := x.floor.toUInt8.toNat
  let frac := x - x.floor
  let off := (Float32.ofNat (48 - t) * frac).ceil.toUInt8.toNat
  (t, off)

def opScopes (a : List String) : String :=
  match calculateScopes scopeF (a.getD 0 "0").toNat! with
  | .ok l => "ok " ++ " ".intercalate (l.map fun s => s!"{s.turnFrom},{s.riverFrom},{s.turnTo},{s.riverTo}")
  | .err => "err"
  | .panic => "panic"

def opScopesD (a : List String) : String :=
  match calculateScopes scopeF (a.getD 0 "0").toNat! with
  | .ok l =>
    let h := l.foldl (fun (h : UInt64) s =>
      [s.turnFrom, s.riverFrom, s.turnTo, s.riverTo].foldl (fun h x => (h ^^^ x.toUInt64) * 0x100000001b3) h) 0xcbf29ce484222325
    s!"ok wf=1 digest={h.toNat}"
  | .err => "err"
  | .panic => "panic"

/-- oracle: C16's conditions on the scope list the implementation printed are checked by the check script
(`scopes-wf`): starts at (0,1), ends at (48,49), chained, never backwards, valid positions, n scopes -/
def specScopes (a : List String) : Option String := some s!"scopes-wf:{a.getD 0 "0"}"

/-- tallies of the model's full enumeration (they do not depend on the entry order) -/
def opC11 (a : List String) : String :=
  match parseIter (a.drop 1) with
  | none => "bad-args"
  | some q =>
    let ev : Evaluator UInt32 := Evaluator.new q.board q.ranges
    match ev.intoIter with
    | .ok s =>
      match drainFuel f32Ops 100000000 s [] with
      | .ok (sds, _) =>
        let n := q.ranges.length
        let rows := (List.range n).map fun p =>
          (List.range' 1 n).map fun k =>
            sds.countP fun sd => (sd.players.map (·.win))[p]? == some true && sd.players.countP (·.win) == k
        let t := if n == 0 then "-" else ";".intercalate (rows.map fun r => ",".intercalate (r.map toString))
        s!"ok suits=1 players=1 pot=1 n={sds.length} t={t}"
      | _ => "panic"
    | _ => "panic"

/-- number of legal deals of one iterator request according to the specification (`Spec.deals`): depends on nothing
but the request's own flop, ranges and scope -/
def specIterCount (a : List String) : Option Nat :=
  match parseIter a with
  | none => none
  | some q =>
    match q.board with
    | [some f0, some f1, some f2, none, none] =>
      let flop := [f0.code, f1.code, f2.code]
      let (tf, rf, tt, rt) := if q.setScope == 0 then (0, 1, 48, 49) else q.scope
      let entries : List (List (Nat × Nat × UInt32)) := q.ranges.map (·.map fun (cp, w) => (cp.fst.code, cp.snd.code, w))
      let wf := flop.Nodup && validPos (tf, rf) && validPos (tt, rt) && Spec.posLe (tf, rf) (tt, rt)
      if wf then some (Spec.deals flop entries (tf, rf) (tt, rt)).length else none
    | _ => none

/-- oracle for `c15`: every instance yields the number of showdowns its OWN input determines, and the interleaved and
threaded runs equal the solo runs -/
def specC15 (a : List String) : Option String :=
  let ns := (splitBars (a.drop 2)).map specIterCount
  if ns.all Option.isSome then
    some s!"all:nopanic;;has:inter=1 threads=1 n={",".intercalate (ns.map fun n => toString (n.getD 0))} "
  else some "all:nopanic;;has:inter=1 threads=1 "

def textOp (op : String) (a : List String) : Option String :=
  match op with
  | "rank_pair" =>
    -- rank_pair <kind 0 pocket / 1 suited / 2 offsuit> <first rank> <second rank> : combos in iteration order, and the text
    let n (i : Nat) : Nat := (a.getD i "0").toNat!
    let rp : RankPair := if n 0 == 0 then .pocket (n 1) else if n 0 == 1 then .suited (n 1) (n 2) else .ofsuit (n 1) (n 2)
    some s!"{",".intercalate (rp.combos.map fun c => toString c.code)} text={hex rp.show}"
  | "range_views" => some (opRangeViews a)
  | "parse_token" => some (opParseToken a)
  | "parse_range" => some (opParseRange a)
  | "token_roundtrip" => some (opTokenRoundtrip a)
  | "range_ops" => some (opRangeOps a)
  | "canon" => some (opCanon a)
  | "c15" => some (opC15 a)
  | "c11" => some (opC11 a)
  | "scopes" => some (opScopes a)
  | "scopes_d" => some (opScopesD a)
  | "scopes_e2e" => some "ok e2e=1"
  | _ => none

def textSpec (op : String) (a : List String) : Option String :=
  match op with
  | "parse_token" => specParseToken a
  | "parse_range" => specParseRange a
  | "token_roundtrip" => (match specTokenSet (unhex (a.getD 0 "-")) with
      | some _ => some "all:[C09]nopanic;;[C06]has:ok rt=1 "
      | none => some "all:[C09]nopanic")
  | "range_ops" => specRangeOps a
  | "range_views" => specRangeViews a
  | "canon" => specCanon a
  | "c15" => specC15 a
  | "c11" => some "all:nopanic;;has:suits=1 players=1 pot=1 "
  | "scopes" => specScopes a
  | "scopes_d" => some "all:nopanic;;has:wf=1 "
  | "scopes_e2e" => some "all:nopanic;;has:e2e=1 "
  | _ => none

end Driver
