/-
Driver/F32Text: exact decimal <-> binary32 conversion used by the driver to instantiate the model's
abstract weight text functions: `parseF32` = correctly rounded (nearest, ties to even) value of a decimal
`digits[.digits]`; `showF32` = shortest fixed-point decimal that parses back to the same bits (what Rust's
`{}` prints for a non-negative finite f32, which never uses an exponent).
-/
namespace Driver

/-- round `p / q` to the nearest natural, ties to even (`q > 0`) -/
def roundDiv (p q : Nat) : Nat :=
  let f := p / q
  let r := p % q
  if 2 * r < q then f else if 2 * r > q then f + 1 else if f % 2 == 0 then f else f + 1

/-- bits of the binary32 nearest to `n / d` (`d > 0`), ties to even; saturates to +inf -/
def ratToF32 (n d : Nat) : UInt32 :=
  if n == 0 then 0 else
  -- e = floor(log2 (n/d)) : largest e with 2^e * d ≤ n  (as an integer offset by 200)
  let rec findE (fuel : Nat) (e : Int) : Int :=
    match fuel with
    | 0 => e
    | fuel + 1 =>
      -- 2^e ≤ n/d ?
      let ok (e : Int) : Bool := if e ≥ 0 then d * 2 ^ e.toNat ≤ n else d ≤ n * 2 ^ (-e).toNat
      if ok (e + 1) then findE fuel (e + 1) else if ok e then e else findE fuel (e - 1)
  let e0 : Int := (Nat.log2 n : Int) - (Nat.log2 d : Int)
  let e := findE 400 e0
  let eEff : Int := if e < -126 then -126 else e
  -- m = round(n/d * 2^(23 - eEff))
  let sh : Int := 23 - eEff
  let m := if sh ≥ 0 then roundDiv (n * 2 ^ sh.toNat) d else roundDiv n (d * 2 ^ (-sh).toNat)
  if e < -126 then m.toUInt32     -- subnormal (or the smallest normal when m = 2^23)
  else
    let (m, eEff) := if m == 2 ^ 24 then (2 ^ 23, eEff + 1) else (m, eEff)
    let biased := eEff + 127
    if biased ≥ 255 then 0x7F800000
    else ((biased.toNat <<< 23) + (m - 2 ^ 23)).toUInt32

def isDigitB (b : Nat) : Bool := 48 ≤ b && b ≤ 57

/-- `f32::from_str` restricted to `digits[.digits]` (all the model ever asks for); `none` otherwise -/
def parseF32 (t : List Nat) : Option UInt32 :=
  let ip := t.takeWhile isDigitB
  let rest := t.dropWhile isDigitB
  let num (ds : List Nat) : Nat := ds.foldl (fun a b => a * 10 + (b - 48)) 0
  match rest with
  | [] => if ip.isEmpty then none else some (ratToF32 (num ip) 1)
  | 46 :: fp =>
    if fp.all isDigitB && !(ip.isEmpty && fp.isEmpty) then
      some (ratToF32 (num (ip ++ fp)) (10 ^ fp.length))
    else none
  | _ => none

/-- exact value of a finite non-negative binary32 as a fraction `(n, d)` -/
def f32ToRat (b : UInt32) : Nat × Nat :=
  let bits := b.toNat
  let e := (bits >>> 23) % 256
  let m := bits % 2 ^ 23
  if e == 0 then (m, 2 ^ 149)
  else
    let mm := m + 2 ^ 23
    if e ≥ 150 then (mm * 2 ^ (e - 150), 1) else (mm, 2 ^ (150 - e))

def natDigits (n width : Nat) : List Nat :=
  let s := (toString n).toList.map (fun c => c.toNat)
  List.replicate (width - s.length) 48 ++ s

/-- `format!("{}", w)` for finite `w ≥ 0` -/
def showF32 (b : UInt32) : List Nat :=
  let (n, d) := f32ToRat b
  let ip := n / d
  let fr := n % d
  let ipS := (toString ip).toList.map (fun c => c.toNat)
  if fr == 0 then ipS else
  -- shortest number k of fractional digits such that some k-digit decimal parses back to `b`
  let rec go (fuel k : Nat) : List Nat :=
    match fuel with
    | 0 => ipS
    | fuel + 1 =>
      let p := 10 ^ k
      let lo := fr * p / d
      let cand (c : Nat) : Option (List Nat) :=
        -- value ip + c / p ; c may equal p (carry) -- then it is not a k-digit fraction of this integer part
        if c ≥ p then none
        else
          let txt := ipS ++ [46] ++ natDigits c k
          if parseF32 txt == some b then some txt else none
      -- distance of lo/p and (lo+1)/p from fr/d : compare fr*p - lo*d  with  (lo+1)*d - fr*p
      let dl := fr * p - lo * d
      let dh := (lo + 1) * d - fr * p
      match cand lo, cand (lo + 1) with
      | some a, some bb => if dl ≤ dh then (if dl == dh && lo % 2 == 1 then bb else a) else bb
      | some a, none => a
      | none, some bb => bb
      | none, none => go fuel (k + 1)
  go 200 1

end Driver
