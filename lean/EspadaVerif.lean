import EspadaVerif.Model.Card
