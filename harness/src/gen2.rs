use crate::util::*;
use std::io::Write;

pub fn generate2(prop: &str, tier: &str, rng: &mut Rng, w: &mut dyn Write) {
    match prop {
        "C01" | "C07" => gen_eval(prop, tier, rng, w),
        "C03" => gen_showdown(tier, rng, w),
        _ => {
            eprintln!("harness: no generator for {}", prop);
            std::process::exit(2);
        }
    }
}

fn emit_hand(w: &mut dyn Write, cards: &[usize]) {
    let s: Vec<String> = cards.iter().map(|c| c.to_string()).collect();
    writeln!(w, "eval7 {}", s.join(" ")).unwrap();
}

/// all rank-count vectors (13 digits <= 4, sum 7): one non-flush hand per AS_RAINBOW slot
fn rainbow_hands(out: &mut Vec<Vec<usize>>) {
    fn rec(rank: usize, left: usize, cur: &mut Vec<usize>, out: &mut Vec<Vec<usize>>) {
        if left == 0 {
            // suits round-robin: consecutive cards get different suits, no suit more than twice
            let cards: Vec<usize> = cur.iter().enumerate().map(|(j, r)| r * 4 + (j % 4)).collect();
            out.push(cards);
            return;
        }
        if rank == 13 {
            return;
        }
        for k in 0..=std::cmp::min(4, left) {
            for _ in 0..k {
                cur.push(rank);
            }
            rec(rank + 1, left - k, cur, out);
            for _ in 0..k {
                cur.pop();
            }
        }
    }
    rec(0, 7, &mut vec![], out);
}

/// one hand per reachable AS_FLUSH slot (masks with 5..7 bits): flush in a seeded suit, fill from other suits
fn flush_hands(rng: &mut Rng, out: &mut Vec<Vec<usize>>) {
    for mask in 0u32..8192 {
        let pc = mask.count_ones() as usize;
        if !(5..=7).contains(&pc) {
            continue;
        }
        let suit = rng.below(4) as usize;
        let mut cards: Vec<usize> = (0..13).filter(|r| mask >> (12 - r) & 1 == 1).map(|r| r * 4 + suit).collect();
        while cards.len() < 7 {
            let c = rng.below(52) as usize;
            if c % 4 != suit && !cards.contains(&c) {
                cards.push(c);
            }
        }
        out.push(cards);
    }
}

/// a seven-card hand containing a five-card hand of the given category (0 high card .. 8 straight flush)
fn hand_of_category(cat: usize, rng: &mut Rng) -> Vec<usize> {
    let mut cards: Vec<usize> = vec![];
    let rk = |rng: &mut Rng, k: usize| -> Vec<usize> { rng.distinct(k, 13).into_iter().map(|x| x as usize).collect() };
    match cat {
        8 | 4 => {
            // straight (flush): top 0..=9 (9 = wheel)
            let top = rng.below(10) as usize;
            let ranks: Vec<usize> = if top == 9 { vec![0, 9, 10, 11, 12] } else { (top..top + 5).collect() };
            let s = rng.below(4) as usize;
            for (j, r) in ranks.iter().enumerate() {
                cards.push(r * 4 + if cat == 8 { s } else { (s + (j % 2)) % 4 });
            }
        }
        7 => {
            let r = rk(rng, 1);
            for s in 0..4 {
                cards.push(r[0] * 4 + s);
            }
        }
        6 => {
            let r = rk(rng, 2);
            let ss = rng.distinct(3, 4);
            for s in ss {
                cards.push(r[0] * 4 + s as usize);
            }
            let ss = rng.distinct(2, 4);
            for s in ss {
                cards.push(r[1] * 4 + s as usize);
            }
        }
        5 => {
            let r = rk(rng, 5);
            let s = rng.below(4) as usize;
            for x in r {
                cards.push(x * 4 + s);
            }
        }
        3 => {
            let r = rk(rng, 1);
            for s in rng.distinct(3, 4) {
                cards.push(r[0] * 4 + s as usize);
            }
        }
        2 => {
            let r = rk(rng, 2);
            for x in r {
                for s in rng.distinct(2, 4) {
                    cards.push(x * 4 + s as usize);
                }
            }
        }
        1 => {
            let r = rk(rng, 1);
            for s in rng.distinct(2, 4) {
                cards.push(r[0] * 4 + s as usize);
            }
        }
        _ => {}
    }
    while cards.len() < 7 {
        let c = rng.below(52) as usize;
        if !cards.contains(&c) {
            cards.push(c);
        }
    }
    rng.shuffle(&mut cards);
    cards
}

fn permutations(v: &[usize]) -> Vec<Vec<usize>> {
    // Heap's algorithm
    let mut a = v.to_vec();
    let n = a.len();
    let mut c = vec![0usize; n];
    let mut out = vec![a.clone()];
    let mut i = 0;
    while i < n {
        if c[i] < i {
            if i % 2 == 0 {
                a.swap(0, i);
            } else {
                a.swap(c[i], i);
            }
            out.push(a.clone());
            c[i] += 1;
            i = 0;
        } else {
            c[i] = 0;
            i += 1;
        }
    }
    out
}

fn gen_eval(prop: &str, tier: &str, rng: &mut Rng, w: &mut dyn Write) {
    let thorough = tier == "thorough";
    // 1. every reachable table slot: 49,205 rank-count vectors + 4,719 flush masks, each in a seeded order
    let mut hands: Vec<Vec<usize>> = vec![];
    rainbow_hands(&mut hands);
    flush_hands(rng, &mut hands);
    for h in hands.iter_mut() {
        rng.shuffle(h);
        emit_hand(w, h);
    }
    // 2. stratified by category, several seeded orders each
    let per_cat = if thorough { 40000 } else if prop == "C07" { 1500 } else { 4000 };
    for cat in 0..9 {
        for _ in 0..per_cat {
            let h = hand_of_category(cat, rng);
            emit_hand(w, &h);
        }
    }
    // 3. flush completing at the 5th, 6th, 7th card: flush cards first / last / interleaved
    for i in 0..(if thorough { 20000 } else { 2000 }) {
        let mut h = hand_of_category(5, rng);
        let suit_of_flush = {
            let mut cnt = [0; 4];
            for c in &h {
                cnt[c % 4] += 1;
            }
            (0..4).max_by_key(|s| cnt[*s]).unwrap()
        };
        match i % 3 {
            0 => h.sort_by_key(|c| (c % 4 != suit_of_flush) as u8),
            1 => h.sort_by_key(|c| (c % 4 == suit_of_flush) as u8),
            _ => {}
        }
        emit_hand(w, &h);
    }
    // 4. all 5040 presentation orders of some hands (one per category + seeded)
    let nperm = if thorough { 2000 } else if prop == "C07" { 9 } else { 36 };
    for i in 0..nperm {
        let h = hand_of_category(i % 9, rng);
        for p in permutations(&h) {
            emit_hand(w, &p);
        }
    }
    // 5. uniform random hands
    for _ in 0..(if thorough { 2_000_000 } else { 20_000 }) {
        let h: Vec<usize> = rng.distinct(7, 52).into_iter().map(|x| x as usize).collect();
        emit_hand(w, &h);
    }
}

fn emit_showdown(w: &mut dyn Write, prob: u32, board: &[usize], holes: &[usize]) {
    let b: Vec<String> = board.iter().map(|c| c.to_string()).collect();
    let h: Vec<String> = holes.iter().map(|c| c.to_string()).collect();
    writeln!(w, "showdown 1 {} {} {}", prob, b.join(" "), h.join(" ")).unwrap();
}

/// boards on which many hands tie: the board plays (straight / flush / quads / full house on board)
fn tie_board(kind: usize, rng: &mut Rng) -> Vec<usize> {
    match kind % 5 {
        0 => {
            // broadway or lower straight on board, mixed suits
            let top = rng.below(9) as usize;
            (top..top + 5).enumerate().map(|(j, r)| r * 4 + (j % 4)).collect()
        }
        1 => {
            // flush on board
            let s = rng.below(4) as usize;
            rng.distinct(5, 13).into_iter().map(|r| r as usize * 4 + s).collect()
        }
        2 => {
            // quads + kicker on board
            let r = rng.distinct(2, 13);
            vec![r[0] as usize * 4, r[0] as usize * 4 + 1, r[0] as usize * 4 + 2, r[0] as usize * 4 + 3, r[1] as usize * 4 + rng.below(4) as usize]
        }
        3 => {
            // full house on board
            let r = rng.distinct(2, 13);
            vec![r[0] as usize * 4, r[0] as usize * 4 + 1, r[0] as usize * 4 + 2, r[1] as usize * 4 + 1, r[1] as usize * 4 + 3]
        }
        _ => {
            // two pair + high kicker on board (kicker ties)
            let r = rng.distinct(2, 12);
            vec![(r[0] as usize + 1) * 4, (r[0] as usize + 1) * 4 + 1, (r[1] as usize + 1) * 4 + 2, (r[1] as usize + 1) * 4 + 3, rng.below(4) as usize]
        }
    }
}

fn gen_showdown(tier: &str, rng: &mut Rng, w: &mut dyn Write) {
    let thorough = tier == "thorough";
    let probs = [0x3F800000u32, 0, 0x3F000000, 0x3DCCCCCD, 1, 0x3F7FFFFF];
    let n_random = if thorough { 1_000_000 } else { 40_000 };
    // random tables of 1..10 players with distinct cards
    for i in 0..n_random {
        let np = 1 + rng.below(10) as usize;
        let cards: Vec<usize> = rng.distinct(5 + 2 * np, 52).into_iter().map(|x| x as usize).collect();
        emit_showdown(w, probs[i % probs.len()], &cards[..5], &cards[5..]);
    }
    // tie-heavy boards: the board plays, kickers shared
    for i in 0..(if thorough { 200_000 } else { 20_000 }) {
        let board = tie_board(i, rng);
        let mut b2 = board.clone();
        b2.sort();
        b2.dedup();
        if b2.len() != 5 {
            continue;
        }
        let np = 2 + rng.below(9) as usize;
        let mut holes: Vec<usize> = vec![];
        while holes.len() < 2 * np {
            let c = rng.below(52) as usize;
            if !board.contains(&c) && !holes.contains(&c) {
                holes.push(c);
            }
        }
        emit_showdown(w, probs[i % probs.len()], &board, &holes);
    }
    // board collisions (no showdown), at each player position
    for i in 0..(if thorough { 20_000 } else { 3_000 }) {
        let np = 1 + rng.below(6) as usize;
        let mut cards: Vec<usize> = rng.distinct(5 + 2 * np, 52).into_iter().map(|x| x as usize).collect();
        let victim = 5 + rng.below(2 * np as u64) as usize;
        cards[victim] = cards[rng.below(5) as usize];
        emit_showdown(w, probs[i % probs.len()], &cards[..5].to_vec(), &cards[5..].to_vec());
    }
    // players sharing hole cards with each other (outside C03's hypothesis; model vs implementation only)
    for i in 0..(if thorough { 10_000 } else { 1_000 }) {
        let np = 2 + rng.below(4) as usize;
        let mut cards: Vec<usize> = rng.distinct(5 + 2 * np, 52).into_iter().map(|x| x as usize).collect();
        let k = cards.len();
        cards[k - 1] = cards[5];
        emit_showdown(w, probs[i % probs.len()], &cards[..5].to_vec(), &cards[5..].to_vec());
    }
    // no players at all; one fixed hand against every single opponent on some boards
    emit_showdown(w, 0x3F800000, &[0, 5, 10, 15, 20], &[]);
    for _ in 0..(if thorough { 2000 } else { 10 }) {
        let cards: Vec<usize> = rng.distinct(7, 52).into_iter().map(|x| x as usize).collect();
        for x in 0..52 {
            for y in (x + 1)..52 {
                if cards.contains(&x) || cards.contains(&y) {
                    continue;
                }
                emit_showdown(w, 0x3F800000, &cards[..5], &[cards[5], cards[6], x, y]);
            }
        }
    }
}
