use crate::util::*;
use std::io::Write;

pub fn generate2(prop: &str, _tier: &str, _rng: &mut Rng, _w: &mut dyn Write) {
    eprintln!("harness: no generator for {}", prop);
    std::process::exit(2);
}
