use crate::util::*;
use std::io::Write;

pub fn generate2(prop: &str, tier: &str, rng: &mut Rng, w: &mut dyn Write) {
    match prop {
        "C01" | "C07" => gen_eval(prop, tier, rng, w),
        "C03" => gen_showdown(tier, rng, w),
        "C02" => gen_iter_c02(tier, rng, w),
        "C04" => gen_iter_c04(tier, rng, w),
        "C08" => gen_iter_c08(tier, rng, w),
        "C05" => crate::gen3::gen_c05(tier, rng, w),
        "C06" => crate::gen3::gen_c06(tier, rng, w),
        "C09" => crate::gen3::gen_c09(tier, rng, w),
        "C10" => crate::gen3::gen_c10(tier, rng, w),
        "C12" => crate::gen3::gen_c12(tier, rng, w),
        "C17" => crate::gen3::gen_c17(tier, rng, w),
        "C15" => crate::gen3::gen_c15(tier, rng, w),
        "C16" => crate::gen3::gen_c16(tier, rng, w),
        "C11" => crate::gen3::gen_c11(tier, rng, w),
        _ => {
            eprintln!("harness: no generator for {}", prop);
            std::process::exit(2);
        }
    }
}

fn emit_hand(w: &mut dyn Write, cards: &[usize]) {
    let s: Vec<String> = cards.iter().map(|c| c.to_string()).collect();
    writeln!(w, "eval7 {}", s.join(" ")).unwrap();
}

/// all rank-count vectors (13 digits <= 4, sum 7): one non-flush hand per AS_RAINBOW slot
fn rainbow_hands(out: &mut Vec<Vec<usize>>) {
    fn rec(rank: usize, left: usize, cur: &mut Vec<usize>, out: &mut Vec<Vec<usize>>) {
        if left == 0 {
            // suits round-robin: consecutive cards get different suits, no suit more than twice
            let cards: Vec<usize> = cur.iter().enumerate().map(|(j, r)| r * 4 + (j % 4)).collect();
            out.push(cards);
            return;
        }
        if rank == 13 {
            return;
        }
        for k in 0..=std::cmp::min(4, left) {
            for _ in 0..k {
                cur.push(rank);
            }
            rec(rank + 1, left - k, cur, out);
            for _ in 0..k {
                cur.pop();
            }
        }
    }
    rec(0, 7, &mut vec![], out);
}

/// one hand per reachable AS_FLUSH slot (masks with 5..7 bits): flush in a seeded suit, fill from other suits
fn flush_hands(rng: &mut Rng, out: &mut Vec<Vec<usize>>) {
    for mask in 0u32..8192 {
        let pc = mask.count_ones() as usize;
        if !(5..=7).contains(&pc) {
            continue;
        }
        let suit = rng.below(4) as usize;
        let mut cards: Vec<usize> = (0..13).filter(|r| mask >> (12 - r) & 1 == 1).map(|r| r * 4 + suit).collect();
        while cards.len() < 7 {
            let c = rng.below(52) as usize;
            if c % 4 != suit && !cards.contains(&c) {
                cards.push(c);
            }
        }
        out.push(cards);
    }
}

/// a seven-card hand containing a five-card hand of the given category (0 high card .. 8 straight flush)
fn hand_of_category(cat: usize, rng: &mut Rng) -> Vec<usize> {
    let mut cards: Vec<usize> = vec![];
    let rk = |rng: &mut Rng, k: usize| -> Vec<usize> { rng.distinct(k, 13).into_iter().map(|x| x as usize).collect() };
    match cat {
        8 | 4 => {
            // straight (flush): top 0..=9 (9 = wheel)
            let top = rng.below(10) as usize;
            let ranks: Vec<usize> = if top == 9 { vec![0, 9, 10, 11, 12] } else { (top..top + 5).collect() };
            let s = rng.below(4) as usize;
            for (j, r) in ranks.iter().enumerate() {
                cards.push(r * 4 + if cat == 8 { s } else { (s + (j % 2)) % 4 });
            }
        }
        7 => {
            let r = rk(rng, 1);
            for s in 0..4 {
                cards.push(r[0] * 4 + s);
            }
        }
        6 => {
            let r = rk(rng, 2);
            let ss = rng.distinct(3, 4);
            for s in ss {
                cards.push(r[0] * 4 + s as usize);
            }
            let ss = rng.distinct(2, 4);
            for s in ss {
                cards.push(r[1] * 4 + s as usize);
            }
        }
        5 => {
            let r = rk(rng, 5);
            let s = rng.below(4) as usize;
            for x in r {
                cards.push(x * 4 + s);
            }
        }
        3 => {
            let r = rk(rng, 1);
            for s in rng.distinct(3, 4) {
                cards.push(r[0] * 4 + s as usize);
            }
        }
        2 => {
            let r = rk(rng, 2);
            for x in r {
                for s in rng.distinct(2, 4) {
                    cards.push(x * 4 + s as usize);
                }
            }
        }
        1 => {
            let r = rk(rng, 1);
            for s in rng.distinct(2, 4) {
                cards.push(r[0] * 4 + s as usize);
            }
        }
        _ => {}
    }
    while cards.len() < 7 {
        let c = rng.below(52) as usize;
        if !cards.contains(&c) {
            cards.push(c);
        }
    }
    rng.shuffle(&mut cards);
    cards
}

fn permutations(v: &[usize]) -> Vec<Vec<usize>> {
    // Heap's algorithm
    let mut a = v.to_vec();
    let n = a.len();
    let mut c = vec![0usize; n];
    let mut out = vec![a.clone()];
    let mut i = 0;
    while i < n {
        if c[i] < i {
            if i % 2 == 0 {
                a.swap(0, i);
            } else {
                a.swap(c[i], i);
            }
            out.push(a.clone());
            c[i] += 1;
            i = 0;
        } else {
            c[i] = 0;
            i += 1;
        }
    }
    out
}

fn gen_eval(prop: &str, tier: &str, rng: &mut Rng, w: &mut dyn Write) {
    let thorough = tier == "thorough";
    // 1. every reachable table slot: 49,205 rank-count vectors + 4,719 flush masks, each in a seeded order
    let mut hands: Vec<Vec<usize>> = vec![];
    rainbow_hands(&mut hands);
    flush_hands(rng, &mut hands);
    for h in hands.iter_mut() {
        rng.shuffle(h);
        emit_hand(w, h);
    }
    // 2. stratified by category, several seeded orders each
    let per_cat = if thorough { 40000 } else if prop == "C07" { 1500 } else { 4000 };
    for cat in 0..9 {
        for _ in 0..per_cat {
            let h = hand_of_category(cat, rng);
            emit_hand(w, &h);
        }
    }
    // 3. flush completing at the 5th, 6th, 7th card: flush cards first / last / interleaved
    for i in 0..(if thorough { 20000 } else { 2000 }) {
        let mut h = hand_of_category(5, rng);
        let suit_of_flush = {
            let mut cnt = [0; 4];
            for c in &h {
                cnt[c % 4] += 1;
            }
            (0..4).max_by_key(|s| cnt[*s]).unwrap()
        };
        match i % 3 {
            0 => h.sort_by_key(|c| (c % 4 != suit_of_flush) as u8),
            1 => h.sort_by_key(|c| (c % 4 == suit_of_flush) as u8),
            _ => {}
        }
        emit_hand(w, &h);
    }
    // 4. all 5040 presentation orders of some hands (one per category + seeded)
    let nperm = if thorough { 2000 } else if prop == "C07" { 9 } else { 36 };
    for i in 0..nperm {
        let h = hand_of_category(i % 9, rng);
        for p in permutations(&h) {
            emit_hand(w, &p);
        }
    }
    // 6. (thorough) ALL C(52,7) = 133,784,560 seven-card sets, as 22,100 blocks by their three lowest cards
    if thorough {
        for a in 0..52 {
            for b in (a + 1)..52 {
                for c in (b + 1)..52 {
                    if c + 4 < 52 {
                        writeln!(w, "eval7_block {} {} {}", a, b, c).unwrap();
                    }
                }
            }
        }
    } else {
        // a few blocks in the quick tier (the small ones near the end of the deck, and one seeded)
        for (a, b, c) in [(44usize, 45usize, 46usize), (40, 41, 42), (30, 40, 45)] {
            writeln!(w, "eval7_block {} {} {}", a, b, c).unwrap();
        }
    }
    // 7. comparison of two evaluated hands: seeded pairs, pairs from the same category, and exact ties (same ranks, suits relabelled)
    for i in 0..(if thorough { 200_000 } else { 6_000 }) {
        let a = if i % 3 == 0 { hand_of_category(i % 9, rng) } else { rng.distinct(7, 52).into_iter().map(|x| x as usize).collect() };
        let b: Vec<usize> = match i % 4 {
            0 => hand_of_category(i % 9, rng),
            1 => {
                // relabel suits: a tie by construction
                let sh = 1 + rng.below(3) as usize;
                let mut v: Vec<usize> = a.iter().map(|c| (c / 4) * 4 + (c % 4 + sh) % 4).collect();
                rng.shuffle(&mut v);
                v
            }
            _ => rng.distinct(7, 52).into_iter().map(|x| x as usize).collect(),
        };
        let sa: Vec<String> = a.iter().map(|c| c.to_string()).collect();
        let sb: Vec<String> = b.iter().map(|c| c.to_string()).collect();
        writeln!(w, "cmp7 {} {}", sa.join(" "), sb.join(" ")).unwrap();
    }
    // 5. uniform random hands
    for _ in 0..(if thorough { 2_000_000 } else { 20_000 }) {
        let h: Vec<usize> = rng.distinct(7, 52).into_iter().map(|x| x as usize).collect();
        emit_hand(w, &h);
    }
}

fn emit_showdown(w: &mut dyn Write, prob: u32, board: &[usize], holes: &[usize]) {
    let b: Vec<String> = board.iter().map(|c| c.to_string()).collect();
    let h: Vec<String> = holes.iter().map(|c| c.to_string()).collect();
    writeln!(w, "showdown 1 {} {} {}", prob, b.join(" "), h.join(" ")).unwrap();
}

/// boards on which many hands tie: the board plays (straight / flush / quads / full house on board)
fn tie_board(kind: usize, rng: &mut Rng) -> Vec<usize> {
    match kind % 5 {
        0 => {
            // broadway or lower straight on board, mixed suits
            let top = rng.below(9) as usize;
            (top..top + 5).enumerate().map(|(j, r)| r * 4 + (j % 4)).collect()
        }
        1 => {
            // flush on board
            let s = rng.below(4) as usize;
            rng.distinct(5, 13).into_iter().map(|r| r as usize * 4 + s).collect()
        }
        2 => {
            // quads + kicker on board
            let r = rng.distinct(2, 13);
            vec![r[0] as usize * 4, r[0] as usize * 4 + 1, r[0] as usize * 4 + 2, r[0] as usize * 4 + 3, r[1] as usize * 4 + rng.below(4) as usize]
        }
        3 => {
            // full house on board
            let r = rng.distinct(2, 13);
            vec![r[0] as usize * 4, r[0] as usize * 4 + 1, r[0] as usize * 4 + 2, r[1] as usize * 4 + 1, r[1] as usize * 4 + 3]
        }
        _ => {
            // two pair + high kicker on board (kicker ties)
            let r = rng.distinct(2, 12);
            vec![(r[0] as usize + 1) * 4, (r[0] as usize + 1) * 4 + 1, (r[1] as usize + 1) * 4 + 2, (r[1] as usize + 1) * 4 + 3, rng.below(4) as usize]
        }
    }
}

fn gen_showdown(tier: &str, rng: &mut Rng, w: &mut dyn Write) {
    let thorough = tier == "thorough";
    let probs = [0x3F800000u32, 0, 0x3F000000, 0x3DCCCCCD, 1, 0x3F7FFFFF];
    let n_random = if thorough { 1_000_000 } else { 40_000 };
    // random tables of 1..10 players with distinct cards
    for i in 0..n_random {
        let np = 1 + rng.below(10) as usize;
        let cards: Vec<usize> = rng.distinct(5 + 2 * np, 52).into_iter().map(|x| x as usize).collect();
        emit_showdown(w, probs[i % probs.len()], &cards[..5], &cards[5..]);
    }
    // more players than a full table: up to 23 pairs of distinct hole cards fit beside a board (the winner
    // bookkeeping must not depend on a small fixed width)
    for i in 0..(if thorough { 20_000 } else { 1_500 }) {
        let np = 11 + rng.below(13) as usize;
        let cards: Vec<usize> = rng.distinct(5 + 2 * np, 52).into_iter().map(|x| x as usize).collect();
        emit_showdown(w, probs[i % probs.len()], &cards[..5], &cards[5..]);
    }
    // tie-heavy boards: the board plays, kickers shared
    for i in 0..(if thorough { 200_000 } else { 20_000 }) {
        let board = tie_board(i, rng);
        let mut b2 = board.clone();
        b2.sort();
        b2.dedup();
        if b2.len() != 5 {
            continue;
        }
        let np = 2 + rng.below(9) as usize;
        let mut holes: Vec<usize> = vec![];
        while holes.len() < 2 * np {
            let c = rng.below(52) as usize;
            if !board.contains(&c) && !holes.contains(&c) {
                holes.push(c);
            }
        }
        emit_showdown(w, probs[i % probs.len()], &board, &holes);
    }
    // board collisions (no showdown), at each player position
    for i in 0..(if thorough { 20_000 } else { 3_000 }) {
        let np = 1 + rng.below(6) as usize;
        let mut cards: Vec<usize> = rng.distinct(5 + 2 * np, 52).into_iter().map(|x| x as usize).collect();
        let victim = 5 + rng.below(2 * np as u64) as usize;
        cards[victim] = cards[rng.below(5) as usize];
        emit_showdown(w, probs[i % probs.len()], &cards[..5].to_vec(), &cards[5..].to_vec());
    }
    // histories: a rejected table (the LAST seat collides with the board, so every earlier seat has been looked at)
    // immediately followed by a valid table of the same size on the same thread -- whatever the rejected call left
    // behind (scratch buffers, cached flags) must not leak into the next showdown
    for i in 0..(if thorough { 40_000 } else { 3_000 }) {
        let np = 2 + rng.below(6) as usize;
        let mut cards: Vec<usize> = rng.distinct(5 + 2 * np, 52).into_iter().map(|x| x as usize).collect();
        let k = cards.len();
        cards[k - 1 - (i % 2)] = cards[rng.below(5) as usize];
        emit_showdown(w, probs[i % probs.len()], &cards[..5].to_vec(), &cards[5..].to_vec());
        let valid: Vec<usize> = rng.distinct(5 + 2 * np, 52).into_iter().map(|x| x as usize).collect();
        emit_showdown(w, probs[i % probs.len()], &valid[..5], &valid[5..]);
    }
    // players sharing hole cards with each other (outside C03's hypothesis; model vs implementation only)
    for i in 0..(if thorough { 10_000 } else { 1_000 }) {
        let np = 2 + rng.below(4) as usize;
        let mut cards: Vec<usize> = rng.distinct(5 + 2 * np, 52).into_iter().map(|x| x as usize).collect();
        let k = cards.len();
        cards[k - 1] = cards[5];
        emit_showdown(w, probs[i % probs.len()], &cards[..5].to_vec(), &cards[5..].to_vec());
    }
    // no players at all; one fixed hand against every single opponent on some boards
    emit_showdown(w, 0x3F800000, &[0, 5, 10, 15, 20], &[]);
    for _ in 0..(if thorough { 2000 } else { 10 }) {
        let cards: Vec<usize> = rng.distinct(7, 52).into_iter().map(|x| x as usize).collect();
        for x in 0..52 {
            for y in (x + 1)..52 {
                if cards.contains(&x) || cards.contains(&y) {
                    continue;
                }
                emit_showdown(w, 0x3F800000, &cards[..5], &[cards[5], cards[6], x, y]);
            }
        }
    }
}

// ------------------------------------------------------------------------------------------ iterator requests
use espada::hand_range::{CardPair, HandRange};

pub const W_PALETTE: [u32; 8] = [0x3F800000, 0x3F000000, 0x3DCCCCCD, 0x3E800000, 0x3E99999A, 0x3F7FFFFF, 0x00000001, 0];

/// entries (combo code, weight bits) listed in the order the map built from them iterates; None if no fixpoint
pub fn stable_entries(mut es: Vec<(usize, u32)>) -> Option<Vec<(usize, u32)>> {
    for _ in 0..6 {
        let hr: HandRange = es.iter().map(|(c, w)| (pair_of(*c), f32::from_bits(*w))).collect();
        let order: Vec<(usize, u32)> = hr.card_pairs().iter().map(|(k, v)| (pair_code(k), v.to_bits())).collect();
        if order == es {
            return Some(es);
        }
        es = order;
    }
    None
}

pub fn combo_code(a: usize, b: usize) -> usize {
    if a < b { 52 * a + b } else { 52 * b + a }
}

pub fn all_combos() -> Vec<usize> {
    let mut v = vec![];
    for a in 0..52 {
        for b in (a + 1)..52 {
            v.push(52 * a + b);
        }
    }
    v
}

/// a random range of `size` distinct combos, weights from the palette
pub fn random_range(rng: &mut Rng, size: usize, uniform_weight: bool) -> Vec<(usize, u32)> {
    let mut all = all_combos();
    rng.shuffle(&mut all);
    let w0 = W_PALETTE[rng.below(6) as usize];
    all.truncate(size);
    all.into_iter().map(|c| (c, if uniform_weight { w0 } else { W_PALETTE[rng.below(8) as usize] })).collect()
}

pub struct IterCase {
    pub mode: &'static str,
    pub nextra: usize,
    pub flop: [usize; 3],
    pub scope: Option<(usize, usize, usize, usize)>,
    pub rescope: bool,
    pub ranges: Vec<Vec<(usize, u32)>>,
}

pub fn emit_iter(w: &mut dyn Write, c: &IterCase) -> bool {
    // entries are listed in INSERTION order; the harness reports the order in which the built map iterates
    let rs: Vec<Vec<(usize, u32)>> = c.ranges.clone();
    let (tf, rf, tt, rt) = c.scope.unwrap_or((0, 1, 48, 49));
    let ss = if c.scope.is_none() { 0 } else if c.rescope { 2 } else { 1 };
    let mut line = format!(
        "iter 1 {} {} {} {} {} - - {} {} {} {} {} {}",
        c.mode, c.nextra, c.flop[0], c.flop[1], c.flop[2], tf, rf, tt, rt, ss, rs.len()
    );
    for r in rs {
        line.push_str(&format!(" {}", r.len()));
        for (cc, wb) in r {
            line.push_str(&format!(" {} {}", cc, wb));
        }
    }
    writeln!(w, "{}", line).unwrap();
    true
}

pub fn random_flop(rng: &mut Rng) -> [usize; 3] {
    let f = rng.distinct(3, 52);
    [f[0] as usize, f[1] as usize, f[2] as usize]
}

/// position with turn < river < 49, or the terminal (48, 49)
pub fn random_pos(rng: &mut Rng) -> (usize, usize) {
    match rng.below(10) {
        0 => (48, 49),
        1 => {
            // row end
            let t = rng.below(48) as usize;
            (t, 48)
        }
        2 => {
            let t = rng.below(48) as usize;
            (t, t + 1)
        }
        _ => {
            let t = rng.below(48) as usize;
            let r = t + 1 + rng.below((48 - t) as u64) as usize;
            (t, r)
        }
    }
}


/// structured adversarial iterator inputs shared by C02 / C04 / C08: ranges wholly blocked by the flop, ranges whose
/// combos all share one card (so whole turn rows / river columns are blocked), scope ends inside such rows,
/// players blocking each other completely
pub fn adversarial_iter_cases(rng: &mut Rng, n: usize) -> Vec<IterCase> {
    let one = 0x3F800000u32;
    let mut out = vec![];
    for i in 0..n {
        let flop = random_flop(rng);
        // deck index -> card code for this flop
        let deck: Vec<usize> = (0..52).filter(|c| !flop.contains(c)).collect();
        match i % 6 {
            0 => {
                // a player whose every combo holds a flop card (non-empty range, nothing playable), alone or beside another player
                let k = 1 + rng.below(3) as usize;
                let mut es = vec![];
                while es.len() < k {
                    let f = flop[rng.below(3) as usize];
                    let o = rng.below(52) as usize;
                    if o != f && !es.iter().any(|e: &(usize, u32)| e.0 == combo_code(f, o)) {
                        es.push((combo_code(f, o), W_PALETTE[rng.below(6) as usize]));
                    }
                }
                let mut ranges = vec![es];
                if rng.below(2) == 0 {
                    let pos = rng.below(2) as usize;
                    let sz = 1 + rng.below(3) as usize;
                    let rr = random_range(rng, sz, false);
                    ranges.insert(pos, rr);
                }
                let scope = if rng.below(2) == 0 { None } else { let a = random_pos(rng); let b = random_pos(rng); Some(if a <= b { (a.0, a.1, b.0, b.1) } else { (b.0, b.1, a.0, a.1) }) };
                out.push(IterCase { mode: "digest", nextra: 2, flop, scope, rescope: false, ranges });
            }
            1 | 2 => {
                // every combo of a player shares the card at deck index x: row x and column x are blocked;
                // scope ends / starts inside the blocked row, just before and just after it
                let x = match rng.below(4) { 0 => 0, 1 => 47, 2 => 48, _ => rng.below(49) as usize };
                let card = deck[x];
                let k = 1 + rng.below(3) as usize;
                let mut es = vec![];
                while es.len() < k {
                    let o = rng.below(52) as usize;
                    if o != card && !es.iter().any(|e: &(usize, u32)| e.0 == combo_code(card, o)) {
                        es.push((combo_code(card, o), one));
                    }
                }
                let osz = 1 + rng.below(3) as usize;
                let other = random_range(rng, osz, false);
                let row = std::cmp::min(x, 47);
                let inside = |rng: &mut Rng| -> (usize, usize) { (row, row + 1 + rng.below((48 - row) as u64) as usize) };
                let a = if rng.below(2) == 0 { (0, 1) } else { random_pos(rng) };
                let b = inside(rng);
                let (a, b) = if a <= b { (a, b) } else { (b, a) };
                out.push(IterCase { mode: "digest", nextra: 2, flop, scope: Some((a.0, a.1, b.0, b.1)), rescope: false, ranges: vec![es.clone(), other.clone()] });
                // the complementary piece: from inside the blocked row to the end
                out.push(IterCase { mode: "digest", nextra: 1, flop, scope: Some((b.0, b.1, 48, 49)), rescope: false, ranges: vec![other, es] });
            }
            3 => {
                // two players holding the same single combo (everything blocked), or fully overlapping ranges
                let rsz = 1 + rng.below(2) as usize;
                let r = random_range(rng, rsz, true);
                out.push(IterCase { mode: "digest", nextra: 2, flop, scope: None, rescope: false, ranges: vec![r.clone(), r] });
            }
            4 => {
                // one player's combos all blocked by the other player's single combo
                let a = rng.below(52) as usize;
                let mut b = rng.below(52) as usize;
                if b == a { b = (a + 1) % 52; }
                let single = vec![(combo_code(a, b), one)];
                let mut es = vec![];
                while es.len() < 3 {
                    let o = rng.below(52) as usize;
                    let c = if rng.below(2) == 0 { a } else { b };
                    if o != a && o != b && !es.iter().any(|e: &(usize, u32)| e.0 == combo_code(c, o)) {
                        es.push((combo_code(c, o), one));
                    }
                }
                out.push(IterCase { mode: "digest", nextra: 1, flop, scope: None, rescope: false, ranges: vec![single, es] });
            }
            _ => {
                // scope of a single position / two positions around a row change
                let t = rng.below(47) as usize;
                let ranges = vec![random_range(rng, 2, false), random_range(rng, 2, false)];
                out.push(IterCase { mode: "full", nextra: 2, flop, scope: Some((t, 48, t + 1, t + 2)), rescope: false, ranges: ranges.clone() });
                out.push(IterCase { mode: "full", nextra: 2, flop, scope: Some((t, 47, t + 1, t + 3)), rescope: true, ranges });
            }
        }
    }
    out
}

pub fn gen_iter_c02(tier: &str, rng: &mut Rng, w: &mut dyn Write) {
    // for every card X: two players who both hold X (nothing is legal), and X against a range through X
    for x in 0..52usize {
        let flop = [(x + 1) % 52, (x + 2) % 52, (x + 3) % 52];
        let a = (x + 10) % 52;
        let b = (x + 20) % 52;
        emit_iter(w, &IterCase { mode: "digest", nextra: 1, flop, scope: None, rescope: false,
            ranges: vec![vec![(combo_code(x, a), 0x3F800000)], vec![(combo_code(x, b), 0x3F000000)]] });
    }
    // C02 speaks of the unscoped enumeration: scoped inputs belong to C04's generator
    for mut c in adversarial_iter_cases(rng, if tier == "thorough" { 1200 } else { 120 }) {
        c.scope = None;
        c.rescope = false;
        emit_iter(w, &c);
    }
    let thorough = tier == "thorough";
    // the D2 witness shape: two players sharing a card
    emit_iter(w, &IterCase { mode: "digest", nextra: 1, flop: [49, 50, 51], scope: None, rescope: false,
        ranges: vec![vec![(combo_code(0, 4), 0x3F800000)], vec![(combo_code(0, 8), 0x3F800000)]] });
    // small cases, complete lists: 1..3 players, 1..4 combos each, overlaps likely (cards drawn from a small pool)
    for i in 0..(if thorough { 1500 } else { 120 }) {
        let flop = random_flop(rng);
        let np = 1 + rng.below(3) as usize;
        let psz = 8 + rng.below(10) as usize;
        let pool: Vec<usize> = rng.distinct(psz, 52).into_iter().map(|x| x as usize).collect();
        let mut ranges = vec![];
        for _ in 0..np {
            let k = 1 + rng.below(4) as usize;
            let mut es: Vec<(usize, u32)> = vec![];
            while es.len() < k {
                let a = pool[rng.below(pool.len() as u64) as usize];
                let b = pool[rng.below(pool.len() as u64) as usize];
                if a == b {
                    continue;
                }
                let c = combo_code(a, b);
                if es.iter().any(|e| e.0 == c) {
                    continue;
                }
                es.push((c, W_PALETTE[rng.below(8) as usize]));
            }
            // sometimes force a flop card into a combo
            if rng.below(6) == 0 {
                let other = pool[0];
                if other != flop[0] {
                    let c = combo_code(flop[0], other);
                    if !es.iter().any(|e| e.0 == c) {
                        es.push((c, 0x3F800000));
                    }
                }
            }
            ranges.push(es);
        }
        emit_iter(w, &IterCase { mode: if i % 4 == 0 { "full" } else { "digest" }, nextra: 2, flop, scope: None, rescope: false, ranges });
    }
    // medium: two or three players, 5..60 combos
    for _ in 0..(if thorough { 300 } else { 10 }) {
        let flop = random_flop(rng);
        let np = 2 + rng.below(2) as usize;
        let mut ranges = vec![];
        for _ in 0..np {
            let sz = if np == 2 { 3 + rng.below(12) as usize } else { 2 + rng.below(4) as usize };
            ranges.push(random_range(rng, sz, false));
        }
        emit_iter(w, &IterCase { mode: "digest", nextra: 1, flop, scope: None, rescope: false, ranges });
    }
    // range-size boundaries of the (formerly u8) odometer: one wide player, full enumeration
    let sizes: &[usize] = if tier == "thorough" { &[255, 256, 257, 390, 700] } else { &[256, 257] };
    for &size in sizes {
        let flop = random_flop(rng);
        emit_iter(w, &IterCase { mode: "digest", nextra: 1, flop, scope: None, rescope: false, ranges: vec![random_range(rng, size, true)] });
    }
    // two players, the wide one in either seat (kept affordable by a tiny second range)
    for &size in &[257usize] {
        let flop = random_flop(rng);
        emit_iter(w, &IterCase { mode: "digest", nextra: 1, flop, scope: None, rescope: false,
            ranges: vec![random_range(rng, 1, true), random_range(rng, size, true)] });
        let flop = random_flop(rng);
        emit_iter(w, &IterCase { mode: "digest", nextra: 1, flop, scope: None, rescope: false,
            ranges: vec![random_range(rng, size, true), random_range(rng, 1, true)] });
    }
    // all 1326 combos (model vs implementation only; the oracle would dominate the run time)
    {
        let flop = random_flop(rng);
        emit_iter(w, &IterCase { mode: "digest-nospec", nextra: 1, flop, scope: None, rescope: false, ranges: vec![all_combos().into_iter().map(|c| (c, 0x3F800000)).collect()] });
    }
    if thorough {
        let flop = random_flop(rng);
        emit_iter(w, &IterCase { mode: "digest", nextra: 1, flop, scope: None, rescope: false, ranges: vec![all_combos().into_iter().map(|c| (c, 0x3F800000)).collect()] });
        // every flop with a fixed pair of small ranges
        for a in 0..52 {
            for b in (a + 1)..52 {
                for c in (b + 1)..52 {
                    emit_iter(w, &IterCase { mode: "digest", nextra: 0, flop: [a, b, c], scope: Some((0, 1, 1, 2)), rescope: false,
                        ranges: vec![vec![(combo_code(0, 5), 0x3F800000), (combo_code(1, 6), 0x3F000000)], vec![(combo_code(20, 30), 0x3F800000), (combo_code(0, 30), 0x3E800000)]] });
                }
            }
        }
    }
    // no players; one player with an empty range
    emit_iter(w, &IterCase { mode: "digest", nextra: 1, flop: [0, 1, 2], scope: None, rescope: false, ranges: vec![] });
    emit_iter(w, &IterCase { mode: "digest", nextra: 1, flop: [0, 1, 2], scope: None, rescope: false, ranges: vec![vec![], vec![(combo_code(10, 20), 0x3F800000)]] });
}

pub fn gen_iter_c04(tier: &str, rng: &mut Rng, w: &mut dyn Write) {
    let thorough = tier == "thorough";
    for c in adversarial_iter_cases(rng, if thorough { 3000 } else { 240 }) {
        emit_iter(w, &c);
    }
    let n = if thorough { 6000 } else { 400 };
    for i in 0..n {
        let flop = random_flop(rng);
        let (mut a, mut b) = (random_pos(rng), random_pos(rng));
        if b < a {
            std::mem::swap(&mut a, &mut b);
        }
        let np = 1 + rng.below(2) as usize;
        let mut ranges = vec![];
        for _ in 0..np {
            let sz = 1 + rng.below(if i % 10 == 0 { 12 } else { 4 }) as usize;
            ranges.push(random_range(rng, sz, false));
        }
        emit_iter(w, &IterCase { mode: if i % 5 == 0 { "full" } else { "digest" }, nextra: 3, flop, scope: Some((a.0, a.1, b.0, b.1)), rescope: i % 7 == 0, ranges });
    }
    // wide ranges under scopes (sizes around the old u8 limit)
    for &size in &[255usize, 256, 257, 390, 1326] {
        let flop = random_flop(rng);
        emit_iter(w, &IterCase { mode: "digest", nextra: 1, flop, scope: Some((0, 1, 1, 10)), rescope: false, ranges: vec![random_range(rng, size, true)] });
        let flop = random_flop(rng);
        emit_iter(w, &IterCase { mode: "digest", nextra: 1, flop, scope: Some((47, 48, 48, 49)), rescope: false,
            ranges: vec![random_range(rng, size, true), random_range(rng, 3, true)] });
    }
    // empty scopes (from == to) at seeded positions and at the ends; chains with repeated cut points
    for i in 0..(if thorough { 400 } else { 60 }) {
        let flop = random_flop(rng);
        let p = match i % 4 { 0 => (0, 1), 1 => (48, 49), 2 => (47, 48), _ => random_pos(rng) };
        let ranges: Vec<Vec<(usize, u32)>> = vec![random_range(rng, 2, false), random_range(rng, 2, false)];
        emit_iter(w, &IterCase { mode: "digest", nextra: 2, flop, scope: Some((p.0, p.1, p.0, p.1)), rescope: i % 5 == 0, ranges: ranges.clone() });
        if i % 3 == 0 {
            let q = random_pos(rng);
            let (a, b) = if p <= q { (p, q) } else { (q, p) };
            for (x, y) in [(a, a), (a, b), (b, b), (b, (48, 49))] {
                emit_iter(w, &IterCase { mode: "digest", nextra: 1, flop, scope: Some((x.0, x.1, y.0, y.1)), rescope: false, ranges: ranges.clone() });
            }
        }
    }
    // chains: consecutive scopes cut at seeded positions (each piece is compared with the specification's piece)
    for _ in 0..(if thorough { 300 } else { 25 }) {
        let flop = random_flop(rng);
        let k = 1 + rng.below(8) as usize;
        let mut cuts: Vec<(usize, usize)> = (0..k).map(|_| random_pos(rng)).collect();
        cuts.push((0, 1));
        cuts.push((48, 49));
        cuts.sort();
        let ranges: Vec<Vec<(usize, u32)>> = vec![random_range(rng, 3, false), random_range(rng, 2, false)];
        for j in 0..cuts.len() - 1 {
            emit_iter(w, &IterCase { mode: "digest", nextra: 1, flop, scope: Some((cuts[j].0, cuts[j].1, cuts[j + 1].0, cuts[j + 1].1)), rescope: false, ranges: ranges.clone() });
        }
    }
    // EVERY position as scope end (from the start) and as scope start (to the terminal), one cheap single-combo player
    {
        let r1: Vec<Vec<(usize, u32)>> = vec![vec![(combo_code(7, 30), 0x3F800000)]];
        for t in 0..48 {
            for r in (t + 1)..49 {
                if thorough || (t * 49 + r) % 5 == 0 {
                    emit_iter(w, &IterCase { mode: "digest", nextra: 0, flop: [2, 26, 50], scope: Some((0, 1, t, r)), rescope: false, ranges: r1.clone() });
                    emit_iter(w, &IterCase { mode: "digest", nextra: 0, flop: [2, 26, 50], scope: Some((t, r, 48, 49)), rescope: false, ranges: r1.clone() });
                }
            }
        }
    }
    // every start at the first/last positions of each row against a fixed end, and every end against a fixed start
    let ranges: Vec<Vec<(usize, u32)>> = vec![vec![(combo_code(3, 17), 0x3F800000), (combo_code(4, 40), 0x3F000000)]];
    for t in 0..48 {
        for &r in &[t + 1, 48] {
            emit_iter(w, &IterCase { mode: "digest", nextra: 1, flop: [0, 21, 42], scope: Some((t, r, 48, 49)), rescope: false, ranges: ranges.clone() });
            emit_iter(w, &IterCase { mode: "digest", nextra: 1, flop: [0, 21, 42], scope: Some((0, 1, t, r)), rescope: false, ranges: ranges.clone() });
        }
    }
}

/// all combos `high-kicker` offsuit for every kicker below `high` (the token `X2o+`)
fn offsuit_plus(high: usize) -> Vec<usize> {
    let mut v = vec![];
    for k in (high + 1)..13 {
        for s1 in 0..4 {
            for s2 in 0..4 {
                if s1 != s2 {
                    v.push(combo_code(high * 4 + s1, k * 4 + s2));
                }
            }
        }
    }
    v
}

/// C08: termination / no panic / bounded stack.  Every request is drained (a) in-process through the normal
/// correspondence and (b) by `drain2m` child processes on a 2 MiB stack in the debug and the release build.
pub fn gen_iter_c08(tier: &str, rng: &mut Rng, w: &mut dyn Write) {
    let thorough = tier == "thorough";
    let one = 0x3F800000u32;
    let flop = [49usize, 50, 51]; // 2h 2d 2c: the deck starts with As
    // range sizes around the old u8 limit and the extremes
    for &size in &[0usize, 1, 2, 255, 256, 257, 512, 1326] {
        let r: Vec<(usize, u32)> = if size == 1326 { all_combos().into_iter().map(|c| (c, one)).collect() } else { random_range(rng, size, true) };
        let scope = if thorough || size <= 257 { None } else { Some((0, 1, 3, 4)) };
        emit_iter(w, &IterCase { mode: "digest-nospec", nextra: 2, flop, scope, rescope: false, ranges: vec![r] });
    }
    // an empty range beside a non-empty one, in both player orders
    emit_iter(w, &IterCase { mode: "digest-nospec", nextra: 2, flop, scope: None, rescope: false, ranges: vec![vec![], vec![(combo_code(0, 4), one)]] });
    emit_iter(w, &IterCase { mode: "digest-nospec", nextra: 2, flop, scope: None, rescope: false, ranges: vec![vec![(combo_code(0, 4), one)], vec![]] });
    // degenerate pairs (`CardPair::new(c, c)`, reachable through `collect()`): never materialised, never a panic
    emit_iter(w, &IterCase { mode: "digest-nospec", nextra: 1, flop, scope: Some((0, 1, 0, 6)), rescope: false,
        ranges: vec![vec![(52 * 4 + 4, one), (combo_code(8, 12), one)], vec![(combo_code(16, 20), one)]] });
    emit_iter(w, &IterCase { mode: "digest-nospec", nextra: 1, flop, scope: None, rescope: false,
        ranges: vec![vec![(52 * 7 + 7, one)], vec![(combo_code(16, 20), one)]] });
    emit_iter(w, &IterCase { mode: "digest-nospec", nextra: 1, flop, scope: Some((0, 1, 2, 9)), rescope: false,
        ranges: vec![vec![(combo_code(16, 20), one), (52 * 20 + 20, one)], vec![(52 * 3 + 3, one), (combo_code(8, 12), 0x3F000000)]] });
    // longest runs of consecutive blocked deals: a one-combo player holding the first deck card (As) beside wide ranges:
    // while the turn is As every deal of the row is blocked
    let wide: Vec<(usize, u32)> = { let mut v = offsuit_plus(0); v.extend(offsuit_plus(1)); v.extend(offsuit_plus(2)); v.into_iter().map(|c| (c, one)).collect() };
    emit_iter(w, &IterCase { mode: "digest-nospec", nextra: 1, flop, scope: if thorough { None } else { Some((0, 1, 1, 2)) }, rescope: false,
        ranges: vec![vec![(combo_code(0, 4), one)], wide.clone()] });
    emit_iter(w, &IterCase { mode: "digest-nospec", nextra: 1, flop, scope: Some((0, 1, 0, 30)), rescope: false,
        ranges: vec![all_combos().into_iter().map(|c| (c, one)).collect(), vec![(combo_code(0, 4), one)]] });
    // a blocked run that ends the enumeration (the last rows hold the blocked card): flop of aces, player holds deuces
    emit_iter(w, &IterCase { mode: "digest-nospec", nextra: 1, flop: [0, 1, 2], scope: Some((46, 47, 48, 49)), rescope: false,
        ranges: vec![vec![(combo_code(50, 51), one)], wide.clone()] });
    // weights whose product is exactly 0 (a zero weight, an underflowing product) and tiny weights: the enumeration
    // must still advance and terminate
    for (wa, wb) in [(0u32, one), (one, 0u32), (0x00000001, 0x00000001), (0x0DA24260, 0x0DA24260), (0x3F000000, 0)] {
        emit_iter(w, &IterCase { mode: "digest-nospec", nextra: 1, flop, scope: Some((0, 1, 0, 6)), rescope: false,
            ranges: vec![vec![(combo_code(0, 4), wa), (combo_code(8, 12), one)], vec![(combo_code(16, 20), wb), (combo_code(1, 5), wa)]] });
        emit_iter(w, &IterCase { mode: "digest-nospec", nextra: 1, flop, scope: Some((40, 41, 48, 49)), rescope: false,
            ranges: vec![vec![(combo_code(0, 4), wa)]] });
    }
    // many players (more than 8 / 16 seats), one or two combos each, a few rows of positions
    for &np in &[9usize, 10, 16, 17, 18, 22] {
        // hole cards avoid the first four deck cards, so the deals at the first positions are playable
        let cards: Vec<usize> = rng.distinct(2 * np + 1, 45).into_iter().map(|x| x as usize + 4).collect();
        let mut ranges: Vec<Vec<(usize, u32)>> = (0..np).map(|i| vec![(combo_code(cards[2 * i], cards[2 * i + 1]), one)]).collect();
        ranges[np - 1].push((combo_code(cards[2 * np], cards[0]), one));
        emit_iter(w, &IterCase { mode: "digest-nospec", nextra: 1, flop, scope: Some((0, 1, 0, 4)), rescope: false, ranges });
    }
    // structured adversarial inputs (ranges wholly blocked by the flop, shared-card ranges, mutual blocking)
    for mut c in adversarial_iter_cases(rng, if thorough { 300 } else { 36 }) {
        c.mode = "digest-nospec";
        emit_iter(w, &c);
    }
    // everything blocked: both players hold the same single combo
    emit_iter(w, &IterCase { mode: "digest-nospec", nextra: 1, flop, scope: None, rescope: false,
        ranges: vec![vec![(combo_code(0, 4), one)], vec![(combo_code(0, 4), one)]] });
    // three players, mostly blocked by each other (drawn from 9 cards)
    let pool: Vec<usize> = rng.distinct(9, 49).into_iter().map(|x| x as usize).collect();
    let mut small = vec![];
    for i in 0..pool.len() {
        for j in (i + 1)..pool.len() {
            small.push((combo_code(pool[i], pool[j]), one));
        }
    }
    let k = if thorough { 36 } else { 14 };
    emit_iter(w, &IterCase { mode: "digest-nospec", nextra: 1, flop, scope: None, rescope: false,
        ranges: vec![small[..k].to_vec(), small[..k].to_vec(), small[..k].to_vec()] });
}
