//! text-side operations: tokens and ranges (C05 C06 C09 C10 C12 C17)
use crate::ops2::{make_evaluator, IterReq};
use crate::util::*;
use espada::hand_range::{CardPair, HandRange, HandRangeToken, RankPair};
use std::str::FromStr;

fn entry_bad(cp: &CardPair, w: f32) -> bool {
    cp[0] == cp[1] || !(0.0 <= w && w <= 1.0)
}

fn fmt_entries(v: &mut Vec<(usize, u32)>) -> String {
    v.sort();
    if v.is_empty() {
        return "-".to_string();
    }
    v.iter().map(|(c, w)| format!("{}:{}", c, w)).collect::<Vec<_>>().join(",")
}

fn rank_pair_key(rp: &RankPair) -> String {
    match rp {
        RankPair::Pocket(r) => format!("P{}", rank_idx(r)),
        RankPair::Suited(h, k) => format!("S{}.{}", rank_idx(h), rank_idx(k)),
        RankPair::Ofsuit(h, k) => format!("O{}.{}", rank_idx(h), rank_idx(k)),
    }
}

/// the text up to (not including) the first single-card-pair token
fn rank_pair_part(text: &str) -> String {
    let mut keep: Vec<&str> = vec![];
    for tok in text.split(',') {
        let b = tok.as_bytes();
        if b.len() >= 2 && b"shdc".contains(&b[1]) {
            break;
        }
        if !tok.is_empty() {
            keep.push(tok);
        }
    }
    keep.join(",")
}

/// the tokens from the first single-combo token on, as a sorted set of hex texts ('.'-separated; "-" if none)
fn card_part(text: &str) -> String {
    let mut v: Vec<String> = vec![];
    let mut seen = false;
    for tok in text.split(',') {
        let b = tok.as_bytes();
        if b.len() >= 2 && b"shdc".contains(&b[1]) {
            seen = true;
        }
        if seen {
            v.push(hex(b));
        }
    }
    v.sort();
    v.dedup();
    if v.is_empty() { "-".to_string() } else { v.join(".") }
}

/// everything observable about a range: contents, views, text, re-parse
pub fn describe_range(hr: &HandRange, with_eval: bool) -> String {
    let mut entries: Vec<(usize, u32)> = vec![];
    let mut bad = 0;
    for (cp, w) in hr.card_pairs() {
        if entry_bad(cp, *w) {
            bad += 1;
        }
        entries.push((pair_code(cp), w.to_bits()));
    }
    let n = entries.len();
    let map = fmt_entries(&mut entries);
    let text = guarded(|| format!("{}", hr));
    let octext = match &text {
        Some(t) => card_part(t),
        None => "panic".to_string(),
    };
    let (text_s, rptext, reparse) = match &text {
        Some(t) => {
            let rp = match guarded(|| HandRange::from_str(t).map(|r| (r == *hr) as u8)) {
                Some(Ok(b)) => b.to_string(),
                Some(Err(_)) => "err".to_string(),
                None => "panic".to_string(),
            };
            (hex(t.as_bytes()), hex(rank_pair_part(t).as_bytes()), rp)
        }
        None => ("panic".to_string(), "panic".to_string(), "panic".to_string()),
    };
    let rp = match guarded(|| {
        let mut v: Vec<String> = hr.rank_pairs().iter().map(|(k, w)| format!("{}:{}", rank_pair_key(k), w.to_bits())).collect();
        v.sort();
        v
    }) {
        Some(v) => if v.is_empty() { "-".to_string() } else { v.join(",") },
        None => "panic".to_string(),
    };
    let orph = match guarded(|| {
        let mut v: Vec<(usize, u32)> = hr.orphan_card_pairs().iter().map(|(k, w)| (pair_code(k), w.to_bits())).collect();
        fmt_entries(&mut v)
    }) {
        Some(s) => s,
        None => "panic".to_string(),
    };
    let mut out = format!("ok n={} map={} bad={} text={} rptext={} octext={} rp={} orph={} reparse={}", n, map, bad, text_s, rptext, octext, rp, orph, reparse);
    if with_eval {
        // hand the range to the evaluator: flop 2h 2d 2c, three positions in the middle of the deck (turn 4s, rivers 4h 4d 4c)
        let req = IterReq { mode: "digest".to_string(), nextra: 0, board: [Some(card_of(49)), Some(card_of(50)), Some(card_of(51)), None, None],
                            scope: (40, 41, 40, 44), set_scope: 1, ranges: vec![] };
        // three players: two fixed ranges that share the ace of spades (AsKs | AsQs:0.5, 7d6d) listed BEFORE the range
        // under test, so that a collision between two earlier players, an empty range beside non-empty ones, and the
        // probability product over three weights are all exercised
        let f1: HandRange = vec![(pair_of(52 * 0 + 4), 1.0f32)].into_iter().collect();
        let f2: HandRange = vec![(pair_of(52 * 0 + 8), 0.5f32), (pair_of(52 * 30 + 34), 1.0f32)].into_iter().collect();
        let players = vec![f1, f2, hr.clone()];
        let ev = match guarded(|| {
            let e = make_evaluator(&req, &players);
            let mut n = 0u64;
            let mut badsd = 0u64;
            let mut dup = 0u64;
            for sd in e {
                n += 1;
                let p = sd.probability();
                if !(0.0 <= p && p <= 1.0) {
                    badsd += 1;
                }
                let mut cs: Vec<usize> = sd.board().iter().map(card_code).collect();
                for pl in sd.players() {
                    cs.push(card_code(&pl.hole_cards()[0]));
                    cs.push(card_code(&pl.hole_cards()[1]));
                }
                let len = cs.len();
                cs.sort();
                cs.dedup();
                if cs.len() != len {
                    dup += 1;
                }
            }
            (n, badsd, dup)
        }) {
            Some((n, b, d)) => format!("ok n={} badprob={} dup={}", n, b, d),
            None => "panic".to_string(),
        };
        out.push_str(&format!(" ev={}", ev));
    }
    out
}

/// compile-time: the public types can be moved to and shared between threads
#[allow(dead_code)]
fn assert_send_sync<T: Send + Sync>() {}
#[allow(dead_code)]
fn static_assertions() {
    assert_send_sync::<espada::evaluator::FlopExhaustiveEvaluator>();
    assert_send_sync::<<espada::evaluator::FlopExhaustiveEvaluator as IntoIterator>::IntoIter>();
    assert_send_sync::<espada::evaluator::Showdown>();
    assert_send_sync::<espada::evaluator::MadeHand>();
    assert_send_sync::<HandRange>();
    assert_send_sync::<HandRangeToken>();
    assert_send_sync::<CardPair>();
    assert_send_sync::<RankPair>();
    assert_send_sync::<espada::card::Card>();
}

/// c15 <seed> <k> | <iter args 1> | <iter args 2> ... : k evaluators, solo vs interleaved vs one thread each
fn op_c15(a: &[&str]) -> String {
    use crate::ops2::{build_ranges, parse_iter, show_showdown};
    let seed: u64 = a[0].parse().unwrap();
    let mut reqs = vec![];
    let mut cur: Vec<&str> = vec![];
    for t in &a[2..] {
        if *t == "|" {
            if !cur.is_empty() {
                reqs.push(parse_iter(&cur));
                cur = vec![];
            }
        } else {
            cur.push(t);
        }
    }
    if !cur.is_empty() {
        reqs.push(parse_iter(&cur));
    }
    let k = reqs.len();
    let mut inputs = vec![];
    for r in &reqs {
        match build_ranges(r) {
            Some((players, _)) => inputs.push(players),
            None => return "bad-request".to_string(),
        }
    }
    let res = guarded(|| {
        // solo
        let solo: Vec<Vec<String>> = (0..k)
            .map(|i| make_evaluator(&reqs[i], &inputs[i]).into_iter().map(|sd| show_showdown(&sd)).collect())
            .collect();
        // interleaved call by call under a seeded schedule; three further calls after each instance's first None
        let mut rng = Rng(seed);
        let mut its: Vec<_> = (0..k).map(|i| make_evaluator(&reqs[i], &inputs[i]).into_iter()).collect();
        let mut out: Vec<Vec<String>> = vec![vec![]; k];
        let mut nones = vec![0usize; k];
        let mut inter_ok = true;
        while nones.iter().any(|n| *n < 3) {
            let live: Vec<usize> = (0..k).filter(|i| nones[*i] < 3).collect();
            let i = live[rng.below(live.len() as u64) as usize];
            match its[i].next() {
                Some(sd) => {
                    if nones[i] > 0 {
                        inter_ok = false;
                    }
                    out[i].push(show_showdown(&sd));
                }
                None => nones[i] += 1,
            }
        }
        if out != solo {
            inter_ok = false;
        }
        // one thread per evaluator, inputs shared through Arc like the multi-thread example does
        let shared = std::sync::Arc::new((reqs.iter().map(|r| (r.board, r.scope, r.set_scope)).collect::<Vec<_>>(), inputs.clone()));
        let mut handles = vec![];
        for i in 0..k {
            let sh = shared.clone();
            handles.push(std::thread::spawn(move || {
                let (meta, inputs) = &*sh;
                let req = IterReq { mode: "digest".to_string(), nextra: 0, board: meta[i].0, scope: meta[i].1, set_scope: meta[i].2, ranges: vec![] };
                make_evaluator(&req, &inputs[i]).into_iter().map(|sd| show_showdown(&sd)).collect::<Vec<String>>()
            }));
        }
        let mut threads_ok = true;
        for (i, h) in handles.into_iter().enumerate() {
            match h.join() {
                Ok(v) => {
                    if v != solo[i] {
                        threads_ok = false;
                    }
                }
                Err(_) => threads_ok = false,
            }
        }
        let ns: Vec<String> = solo.iter().map(|v| v.len().to_string()).collect();
        format!("ok k={} inter={} threads={} n={}", k, inter_ok as u8, threads_ok as u8, ns.join(","))
    });
    res.unwrap_or_else(|| "panic".to_string())
}

/// tallies of a full enumeration: per player, how often flagged with exactly k winners (k = 1..n); plus pot check
fn tallies(board: &[Option<espada::card::Card>; 5], players: &Vec<HandRange>) -> (Vec<Vec<u64>>, bool, u64) {
    let n = players.len();
    let mut t = vec![vec![0u64; n + 1]; n];
    let mut pot_ok = true;
    let mut count = 0u64;
    for sd in espada::evaluator::FlopExhaustiveEvaluator::new(board, players) {
        count += 1;
        let k = sd.winner_len() as usize;
        let flagged = sd.players().iter().filter(|p| p.is_winner()).count();
        if n > 0 && (k < 1 || flagged != k) {
            pot_ok = false;
        }
        for (i, p) in sd.players().iter().enumerate() {
            if p.is_winner() {
                t[i][k] += 1;
            }
        }
    }
    (t, pot_ok, count)
}

fn fmt_tallies(t: &Vec<Vec<u64>>) -> String {
    if t.is_empty() {
        return "-".to_string();
    }
    t.iter().map(|row| row[1..].iter().map(|x| x.to_string()).collect::<Vec<_>>().join(",")).collect::<Vec<_>>().join(";")
}

/// c11 <seed> <iter args> : tallies of the input, of suit-relabelled inputs and of player-permuted inputs
fn op_c11(a: &[&str]) -> String {
    use crate::ops2::parse_iter;
    let seed: u64 = a[0].parse().unwrap();
    let req = parse_iter(&a[1..]);
    let res = guarded(|| {
        let base: Vec<HandRange> = req.ranges.iter().map(|es| es.iter().cloned().collect()).collect();
        let (t0, pot, n0) = tallies(&req.board, &base);
        let mut rng = Rng(seed);
        let mut suits_ok = true;
        // suit permutations: all 24 when the seed is even, three seeded ones otherwise
        let mut perms: Vec<[usize; 4]> = vec![];
        let mut idx = [0usize, 1, 2, 3];
        fn heap(k: usize, a: &mut [usize; 4], out: &mut Vec<[usize; 4]>) {
            if k == 1 {
                out.push(*a);
                return;
            }
            for i in 0..k {
                heap(k - 1, a, out);
                if k % 2 == 0 { a.swap(i, k - 1) } else { a.swap(0, k - 1) }
            }
        }
        heap(4, &mut idx, &mut perms);
        if seed % 2 == 1 {
            rng.shuffle(&mut perms);
            perms.truncate(3);
        }
        for sg in &perms {
            let map_card = |c: espada::card::Card| card_of((card_code(&c) / 4) * 4 + sg[card_code(&c) % 4]);
            let mut board = req.board;
            for b in board.iter_mut() {
                if let Some(c) = b {
                    *b = Some(map_card(*c));
                }
            }
            let players: Vec<HandRange> = req.ranges.iter().map(|es| es.iter().map(|(cp, w)| (CardPair::new(map_card(cp[0]), map_card(cp[1])), *w)).collect()).collect();
            let (t, p, n) = tallies(&board, &players);
            if t != t0 || !p || n != n0 {
                suits_ok = false;
            }
        }
        // player orders: reversed and two seeded shuffles
        let mut players_ok = true;
        let np = base.len();
        for round in 0..3 {
            let mut order: Vec<usize> = (0..np).collect();
            if round == 0 { order.reverse() } else { rng.shuffle(&mut order) }
            let players: Vec<HandRange> = order.iter().map(|i| base[*i].clone()).collect();
            let (t, _, n) = tallies(&req.board, &players);
            for (newpos, old) in order.iter().enumerate() {
                if t[newpos] != t0[*old] {
                    players_ok = false;
                }
            }
            if n != n0 {
                players_ok = false;
            }
        }
        format!("ok suits={} players={} pot={} n={} t={}", suits_ok as u8, players_ok as u8, pot as u8, n0, fmt_tallies(&t0))
    });
    res.unwrap_or_else(|| "panic".to_string())
}

pub fn run_op3(op: &str, a: &[&str]) -> Option<String> {
    match op {
        "c15" => Some(op_c15(a)),
        "c11" => Some(op_c11(a)),
        // scopes <n> : the example's work splitter
        "scopes" => {
            let n: u32 = a[0].parse().unwrap();
            Some(match guarded(|| crate::scope::calculate_scopes(n)) {
                None => "panic".to_string(),
                Some(v) => {
                    let t: Vec<String> = v.iter().map(|s| format!("{},{},{},{}", s.turn_from, s.river_from, s.turn_to, s.river_to)).collect();
                    format!("ok {}", t.join(" ")).trim_end().to_string()
                }
            })
        }
        // scopes_d <n> : the same list, reported as (well-formedness per C16, digest) -- for large n
        "scopes_d" => {
            let n: u32 = a[0].parse().unwrap();
            Some(match guarded(|| crate::scope::calculate_scopes(n)) {
                None => "panic".to_string(),
                Some(v) => {
                    let valid = |t: u8, r: u8| (t < r && r < 49) || (t, r) == (48, 49);
                    let mut wf = v.len() == n as usize && n >= 1;
                    let mut h: u64 = 0xcbf29ce484222325;
                    for (k, s) in v.iter().enumerate() {
                        if !valid(s.turn_from, s.river_from) || !valid(s.turn_to, s.river_to) || (s.turn_to, s.river_to) < (s.turn_from, s.river_from) {
                            wf = false;
                        }
                        if k == 0 && (s.turn_from, s.river_from) != (0, 1) {
                            wf = false;
                        }
                        if k > 0 && (v[k - 1].turn_to, v[k - 1].river_to) != (s.turn_from, s.river_from) {
                            wf = false;
                        }
                        for x in [s.turn_from, s.river_from, s.turn_to, s.river_to] {
                            h = (h ^ x as u64).wrapping_mul(0x100000001b3);
                        }
                    }
                    if let Some(l) = v.last() {
                        if (l.turn_to, l.river_to) != (48, 49) {
                            wf = false;
                        }
                    }
                    format!("ok wf={} digest={}", wf as u8, h)
                }
            })
        }
        // scopes_e2e <n> : per-scope showdown counts and win tallies of the real evaluator add up to the unscoped run
        "scopes_e2e" => {
            let n: u32 = a[0].parse().unwrap();
            Some(match guarded(|| {
                let board = [Some(card_of(5)), Some(card_of(22)), Some(card_of(47)), None, None];
                // variant 0: fixed ranges.  variant v >= 1: player 0 holds ONE combo containing the unseen card whose turn row
                // a cut of this very scope list falls on (odd v: the cut's turn_to row, even v: its river_to column), so that
                // the row/column at the scope edge is wholly dead -- the structure a scope edge is most sensitive to.
                let v: usize = if a.len() > 1 { a[1].parse().unwrap() } else { 0 };
                let players: Vec<HandRange> = if v == 0 {
                    vec![HandRange::from_str("AKs,QQ:0.5,7d2c").unwrap(), HandRange::from_str("JTs:0.25,9h9s,AcKc").unwrap()]
                } else {
                    let deck: Vec<usize> = (0..52usize).filter(|c| ![5usize, 22, 47].contains(c)).collect();
                    let sc = crate::scope::calculate_scopes(n);
                    let cut = &sc[((v - 1) / 2) % sc.len()];
                    let pin = (if v % 2 == 1 { cut.turn_to } else { cut.river_to }) as usize % 49;
                    let other = (pin + 24 + v / (2 * sc.len())) % 49;
                    let other = if other == pin { (other + 1) % 49 } else { other };
                    let p0: HandRange = vec![(CardPair::new(card_of(deck[pin]), card_of(deck[other])), 1.0f32)].into_iter().collect();
                    vec![p0, HandRange::from_str("TT+:0.5,AQs+,KJo,7d2c,5s4s:0.25").unwrap()]
                };
                let tally = |ev: espada::evaluator::FlopExhaustiveEvaluator| -> (u64, u64, u64) {
                    let (mut n, mut w0, mut ties) = (0u64, 0u64, 0u64);
                    for sd in ev {
                        n += 1;
                        if sd.players()[0].is_winner() {
                            w0 += 1;
                        }
                        if sd.winner_len() > 1 {
                            ties += 1;
                        }
                    }
                    (n, w0, ties)
                };
                let full = tally(espada::evaluator::FlopExhaustiveEvaluator::new(&board, &players));
                let mut sum = (0u64, 0u64, 0u64);
                for s in crate::scope::calculate_scopes(n) {
                    let mut ev = espada::evaluator::FlopExhaustiveEvaluator::new(&board, &players);
                    ev.scope(s.turn_from, s.river_from, s.turn_to, s.river_to);
                    // like the example, a panicking worker contributes nothing
                    if let Some(t) = guarded(|| tally(ev)) {
                        sum = (sum.0 + t.0, sum.1 + t.1, sum.2 + t.2);
                    }
                }
                (full, sum)
            }) {
                None => "panic".to_string(),
                Some((full, sum)) => {
                    if full == sum {
                        "ok e2e=1".to_string()
                    } else {
                        format!("ok e2e=0 full={:?} sum={:?}", full, sum)
                    }
                }
            })
        }
        // rank_pair <kind> <first rank> <second rank> : `RankPair::into_iter` in iteration order, and `Display`
        "rank_pair" => {
            let k: Vec<usize> = a.iter().map(|x| x.parse().unwrap()).collect();
            Some(match guarded(|| {
                let rp = match k[0] {
                    0 => RankPair::Pocket(rank_of(k[1])),
                    1 => RankPair::Suited(rank_of(k[1]), rank_of(k[2])),
                    _ => RankPair::Ofsuit(rank_of(k[1]), rank_of(k[2])),
                };
                let v: Vec<String> = rp.into_iter().map(|cp| pair_code(&cp).to_string()).collect();
                format!("{} text={}", v.join(","), hex(format!("{}", rp).as_bytes()))
            }) {
                Some(s) => s,
                None => "panic".to_string(),
            })
        }
        "parse_token" => {
            let s = unhex_str(a[0]);
            Some(match guarded(|| HandRangeToken::from_str(&s)) {
                None => "panic".to_string(),
                Some(Err(())) => "err".to_string(),
                Some(Ok(tok)) => {
                    let show = match guarded(|| format!("{}", tok)) {
                        Some(t) => hex(t.as_bytes()),
                        None => "panic".to_string(),
                    };
                    match guarded(|| tok.into_iter().collect::<Vec<(CardPair, f32)>>()) {
                        None => format!("ok show={} expand=panic set=- bad=-", show),
                        Some(v) => {
                            let bad = v.iter().filter(|(cp, w)| entry_bad(cp, *w)).count();
                            let exp: Vec<String> = v.iter().map(|(cp, w)| format!("{}:{}", pair_code(cp), w.to_bits())).collect();
                            let mut set: Vec<(usize, u32)> = v.iter().map(|(cp, w)| (pair_code(cp), w.to_bits())).collect();
                            format!("ok show={} expand={} set={} bad={}", show, if exp.is_empty() { "-".to_string() } else { exp.join(",") }, fmt_entries(&mut set), bad)
                        }
                    }
                }
            })
        }
        // token_roundtrip <hex> : parse, print, parse again, compare the two tokens (derived PartialEq)
        "token_roundtrip" => {
            let s = unhex_str(a[0]);
            Some(match guarded(|| HandRangeToken::from_str(&s)) {
                None => "panic".to_string(),
                Some(Err(())) => "err".to_string(),
                Some(Ok(tok)) => match guarded(|| {
                    let t = format!("{}", tok);
                    let again = HandRangeToken::from_str(&t);
                    (t, again.map(|t2| t2 == tok))
                }) {
                    None => "panic".to_string(),
                    Some((t, Ok(eq))) => format!("ok rt={} show={}", eq as u8, hex(t.as_bytes())),
                    Some((t, Err(()))) => format!("ok rt=err show={}", hex(t.as_bytes())),
                },
            })
        }
        "parse_range" => {
            let s = unhex_str(a[0]);
            Some(match guarded(|| HandRange::from_str(&s)) {
                None => "panic".to_string(),
                Some(Err(())) => "err".to_string(),
                Some(Ok(hr)) => describe_range(&hr, true),
            })
        }
        // range_ops <n> (combo wbits)*  : collect() in the listed order (a later duplicate overwrites)
        "range_ops" => {
            let n: usize = a[0].parse().unwrap();
            let es: Vec<(CardPair, f32)> = (0..n)
                .map(|i| (pair_of(a[1 + 2 * i].parse::<usize>().unwrap()), f32::from_bits(a[2 + 2 * i].parse::<u32>().unwrap())))
                .collect();
            let hr: HandRange = es.into_iter().collect();
            Some(describe_range(&hr, false))
        }
        // range_views <n> (combo wbits)* : only rank_pairs() and orphan_card_pairs() (any weights; nothing is printed as text)
        "range_views" => {
            let n: usize = a[0].parse().unwrap();
            let es: Vec<(CardPair, f32)> = (0..n)
                .map(|i| (pair_of(a[1 + 2 * i].parse::<usize>().unwrap()), f32::from_bits(a[2 + 2 * i].parse::<u32>().unwrap())))
                .collect();
            let hr: HandRange = es.into_iter().collect();
            let rp = match guarded(|| {
                let mut v: Vec<String> = hr.rank_pairs().iter().map(|(k, w)| format!("{}:{}", rank_pair_key(k), w.to_bits())).collect();
                v.sort();
                v
            }) {
                Some(v) => if v.is_empty() { "-".to_string() } else { v.join(",") },
                None => "panic".to_string(),
            };
            let orph = match guarded(|| {
                let mut v: Vec<(usize, u32)> = hr.orphan_card_pairs().iter().map(|(k, w)| (pair_code(k), w.to_bits())).collect();
                fmt_entries(&mut v)
            }) {
                Some(s) => s,
                None => "panic".to_string(),
            };
            Some(format!("ok rp={} orph={}", rp, orph))
        }
        // canon <seed> <n> (combo wbits)* : the same contents built along different histories must print identically
        "canon" => {
            let seed: u64 = a[0].parse().unwrap();
            let n: usize = a[1].parse().unwrap();
            let es: Vec<(CardPair, f32)> = (0..n)
                .map(|i| (pair_of(a[2 + 2 * i].parse::<usize>().unwrap()), f32::from_bits(a[3 + 2 * i].parse::<u32>().unwrap())))
                .collect();
            let mut rng = Rng(seed);
            let base: HandRange = es.iter().cloned().collect();
            let text0 = format!("{}", base);
            let mut same = true;
            let mut histories = 1;
            let mut check = |hr: HandRange| {
                histories += 1;
                if format!("{}", hr) != text0 || hr != base {
                    same = false;
                }
            };
            // reversed, shuffled
            check(es.iter().rev().cloned().collect());
            for _ in 0..3 {
                let mut v = es.clone();
                rng.shuffle(&mut v);
                check(v.into_iter().collect());
            }
            // overwrites: every combo first inserted with another weight
            let mut v: Vec<(CardPair, f32)> = es.iter().map(|(c, _)| (*c, 0.125f32)).collect();
            v.extend(es.iter().cloned());
            check(v.into_iter().collect());
            // an iterator without a size hint (the map grows step by step instead of being pre-sized)
            check(es.iter().cloned().filter(|_| true).collect());
            // via text: one card-pair token per combo, in a shuffled order
            let mut v = es.clone();
            rng.shuffle(&mut v);
            // (the weight written is the one the range holds: a caller's -0.0 is stored as 0.0 since D11)
            let txt: Vec<String> = v.iter().map(|(c, w)| format!("{}:{}", c, base.card_pairs().get(c).copied().unwrap_or(*w))).collect();
            if let Ok(hr) = HandRange::from_str(&txt.join(", ")) {
                check(hr);
            }
            Some(format!("same={} histories={} text={}", same as u8, histories, hex(text0.as_bytes())))
        }
        _ => None,
    }
}
