//! request generators: exhaustive finite domains + structured seeded streams, per property
use crate::util::*;
use std::io::Write;

pub fn generate(prop: &str, tier: &str, seed: u64, w: &mut dyn Write) {
    let mut rng = Rng(seed
        ^ 0x5EED_E59A_DA00
        ^ (prop.bytes().fold(0u64, |a, b| a.wrapping_mul(131).wrapping_add(b as u64))));
    match prop {
        "C13" => gen_c13(tier, &mut rng, w),
        "C14" => gen_c14(tier, &mut rng, w),
        _ => crate::gen2::generate2(prop, tier, &mut rng, w),
    }
}

pub const RANK_CH: &[u8; 13] = b"AKQJT98765432";
pub const SUIT_CH: &[u8; 4] = b"shdc";

pub fn card_text(c: usize) -> [u8; 2] {
    [RANK_CH[c / 4], SUIT_CH[c % 4]]
}

fn gen_c13(_tier: &str, rng: &mut Rng, w: &mut dyn Write) {
    for r in 0..13 {
        for op in ["rank_u8", "rank_char", "rank_next", "rank_prev", "show_rank"] {
            writeln!(w, "{} {}", op, r).unwrap();
        }
        for r2 in 0..13 {
            writeln!(w, "rank_cmp {} {}", r, r2).unwrap();
            // every ordered endpoint pair, reversed ones included (there the slice panics: `rank_range_total`)
            writeln!(w, "rank_range {} {} 0", r, r2).unwrap();
            writeln!(w, "rank_range {} {} 1", r, r2).unwrap();
        }
    }
    for s in 0..4 {
        for op in ["suit_u8", "suit_char", "show_suit"] {
            writeln!(w, "{} {}", op, s).unwrap();
        }
        for s2 in 0..4 {
            writeln!(w, "suit_cmp {} {}", s, s2).unwrap();
            writeln!(w, "suit_range {} {} 0", s, s2).unwrap();
            writeln!(w, "suit_range {} {} 1", s, s2).unwrap();
        }
    }
    writeln!(w, "rank_all").unwrap();
    writeln!(w, "suit_all").unwrap();
    for c in 0..52 {
        writeln!(w, "u64_of_card {}", c).unwrap();
        writeln!(w, "card_bits_rt {}", c).unwrap();
        writeln!(w, "show_card {}", c).unwrap();
        for c2 in 0..52 {
            writeln!(w, "card_cmp {} {}", c, c2).unwrap();
        }
    }
    writeln!(w, "card_of_u64 0").unwrap();
    for k in 0..64 {
        writeln!(w, "card_of_u64 {}", 1u64 << k).unwrap();
    }
    // multi-bit words (behaviour defined by the probe order)
    for _ in 0..200 {
        let v = rng.next() & rng.next();
        writeln!(w, "card_of_u64 {}", v).unwrap();
    }
    // every one- and two-character ASCII string, through every text parser
    writeln!(w, "parse_rank -\nparse_suit -\nparse_card -").unwrap();
    for b1 in 0u8..128 {
        let h = hex(&[b1]);
        writeln!(w, "parse_rank {}\nparse_suit {}\nparse_card {}", h, h, h).unwrap();
        for b2 in 0u8..128 {
            writeln!(w, "parse_card {}", hex(&[b1, b2])).unwrap();
        }
    }
    // a few longer texts (non-ASCII input is C09's domain)
    for s in ["As ", "10s", "AsK", "A", "ss", "AA"] {
        let h = hex(s.as_bytes());
        writeln!(w, "parse_card {}\nparse_rank {}\nparse_suit {}", h, h, h).unwrap();
    }
}

fn gen_c14(_tier: &str, _rng: &mut Rng, w: &mut dyn Write) {
    for a in 0..52 {
        for b in 0..52 {
            if a == b {
                continue;
            }
            writeln!(w, "mk_pair {} {}", a, b).unwrap();
            writeln!(w, "show_pair {} {}", a, b).unwrap();
            // text of the two cards in this order
            let mut s = card_text(a).to_vec();
            s.extend_from_slice(&card_text(b));
            writeln!(w, "parse_pair {}", hex(&s)).unwrap();
        }
        let b = (a + 1) % 52;
        writeln!(w, "pair_index {} {} 0\npair_index {} {} 1\npair_index {} {} 2", a, b, a, b, a, b)
            .unwrap();
    }
    // histories: two texts that differ in exactly one character, parsed one right after the other on one thread, for
    // every ordered pair of rank letters and of suit letters at each of the four positions (a parser that remembers
    // its last input under a lossy key confuses exactly such neighbours)
    let ranks = b"AKQJT98765432";
    let suits = b"shdc";
    for pos in 0..4usize {
        let alpha: &[u8] = if pos % 2 == 0 { ranks } else { suits };
        for (i, x) in alpha.iter().enumerate() {
            for (j, y) in alpha.iter().enumerate() {
                if i == j {
                    continue;
                }
                // a base text whose other card differs in rank from both substituted letters where possible
                let other_rank = ranks[(i + j + 5 + pos) % 13];
                let mut t: Vec<u8> = vec![ranks[(i + 3) % 13], suits[(j + pos) % 4], other_rank, suits[(i + 1) % 4]];
                if pos >= 2 {
                    t.swap(0, 2);
                    t.swap(1, 3);
                }
                let mut a = t.clone();
                a[pos] = *x;
                let mut b = t.clone();
                b[pos] = *y;
                writeln!(w, "parse_pair {}\nparse_pair {}", hex(&a), hex(&b)).unwrap();
            }
        }
    }
    for s in [
        "", "As", "AsK", "AsKcQ", "As Kc", "AsKj", "asks", "AsAs", "KcKc",
    ] {
        writeln!(w, "parse_pair {}", hex(s.as_bytes())).unwrap();
    }
}
