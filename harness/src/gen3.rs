//! generators for the text-side properties (C05 C06 C09 C10 C12 C17)
use crate::gen::{RANK_CH, SUIT_CH};
use crate::gen2::{all_combos, combo_code, W_PALETTE};
use crate::util::*;
use std::io::Write;

fn tok_line(w: &mut dyn Write, op: &str, s: &[u8]) {
    writeln!(w, "{} {}", op, hex(s)).unwrap();
}

fn rk(r: usize) -> u8 {
    RANK_CH[r]
}

/// every well-formed token text (no weight): 13 + 13 + 91 + 312 + 156 + 572 + 2652
pub fn wf_tokens() -> Vec<Vec<u8>> {
    let mut v: Vec<Vec<u8>> = vec![];
    for r in 0..13 {
        v.push(vec![rk(r), rk(r)]);
        v.push(vec![rk(r), rk(r), b'+']);
        for lo in r..13 {
            v.push(vec![rk(r), rk(r), b'-', rk(lo), rk(lo)]);
        }
    }
    for &so in b"so" {
        for x in 0..13 {
            for y in 0..13 {
                if x != y {
                    v.push(vec![rk(x), rk(y), so]);
                }
                if x < y {
                    v.push(vec![rk(x), rk(y), so, b'+']);
                    for z in (y + 1)..13 {
                        v.push(vec![rk(x), rk(y), so, b'-', rk(x), rk(z), so]);
                    }
                }
            }
        }
    }
    for a in 0..52 {
        for b in 0..52 {
            if a != b {
                v.push(vec![rk(a / 4), SUIT_CH[a % 4], rk(b / 4), SUIT_CH[b % 4]]);
            }
        }
    }
    v
}

const WEIGHT_LITS: [&str; 9] = ["", ":1", ":0", ":0.5", ":0.25", ":1.0", ":0.125", ":0.999", ":0.3"];

pub fn gen_c05(tier: &str, rng: &mut Rng, w: &mut dyn Write) {
    let toks = wf_tokens();
    for (i, t) in toks.iter().enumerate() {
        // every shape with no weight and with two seeded weight literals (all literals in the thorough tier)
        let lits: Vec<&str> = if tier == "thorough" { WEIGHT_LITS.to_vec() } else { vec!["", WEIGHT_LITS[1 + i % 8], WEIGHT_LITS[1 + (i / 8) % 8]] };
        for l in lits {
            let mut s = t.clone();
            s.extend_from_slice(l.as_bytes());
            tok_line(w, "parse_token", &s);
        }
    }
    // weight literals whose correct rounding is decided by a digit far beyond f64's precision
    for (i, l) in midpoint_literals(rng, if tier == "thorough" { 3000 } else { 200 }).into_iter().enumerate() {
        let t = &toks[(i * 37) % toks.len()];
        let mut s = t.clone();
        s.push(b':');
        s.extend_from_slice(l.as_bytes());
        tok_line(w, "parse_token", &s);
    }
    writeln!(w, "parse_range -").unwrap();
    tok_line(w, "parse_range", b"   ");
    tok_line(w, "parse_range", b"44");
    tok_line(w, "parse_range", b"JTs");
    tok_line(w, "parse_range", b"72o");
    tok_line(w, "parse_range", b"QQ+, A9s+ ,88-66,AQs-A9s, AsKs , KsAs:0.5");
    // lists over a tiny pool of token texts, so the same text recurs with overlapping tokens in between
    // (the later occurrence must win again)
    for i in 0..(if tier == "thorough" { 4000 } else { 400 }) {
        let pool_texts: [&[u8]; 10] = [b"QQ+", b"KK:0.25", b"KK", b"A9s+:0.5", b"AsKs", b"AKs:0.3", b"TT-88", b"99:0.5", b"AQs-A9s", b"AJs:0.125"];
        let k = 3 + rng.below(5) as usize;
        let base = (i % 7) as usize;
        let mut s: Vec<u8> = vec![];
        for j in 0..k {
            if j > 0 {
                s.push(b',');
            }
            s.extend_from_slice(pool_texts[(base + rng.below(4) as usize) % 10]);
        }
        tok_line(w, "parse_range", &s);
    }
    // token lists: 1..40 tokens, overlaps (narrow pool of ranks), spaces, later weights overriding earlier ones
    let n = if tier == "thorough" { 6000 } else { 400 };
    let non_card: Vec<&Vec<u8>> = toks.iter().filter(|t| !(t.len() == 4 && SUIT_CH.contains(&t[1]))).collect();
    for i in 0..n {
        let k = 1 + rng.below(if i % 10 == 0 { 40 } else { 8 }) as usize;
        let mut s: Vec<u8> = vec![];
        for j in 0..k {
            if j > 0 {
                s.push(b',');
                if rng.below(3) == 0 {
                    s.push(b' ');
                }
            }
            let t: &Vec<u8> = if rng.below(4) == 0 { &toks[rng.below(toks.len() as u64) as usize] } else { non_card[rng.below(non_card.len() as u64) as usize] };
            s.extend_from_slice(t);
            s.extend_from_slice(WEIGHT_LITS[rng.below(9) as usize].as_bytes());
            if rng.below(5) == 0 {
                s.push(b' ');
            }
        }
        tok_line(w, "parse_range", &s);
    }
}

/// the seven token shapes with arbitrary ranks (reversed / degenerate spans included) and all 52 x 52 card-pair tokens,
/// through parse_token (expand + format) and parse_range (+ views + evaluation); shared by C09 and C10
pub fn shapes_stream(w: &mut dyn Write) {
    for x in 0..13 {
        for y in 0..13 {
            tok_line(w, "parse_range", &[rk(x), rk(x), b'-', rk(y), rk(y)]);
            tok_line(w, "parse_token", &[rk(x), rk(x), b'-', rk(y), rk(y)]);
            tok_line(w, "parse_token", &[rk(x), rk(y), b'-', rk(x), rk(y)]);
            for &so in b"so" {
                tok_line(w, "parse_range", &[rk(x), rk(y), so, b'+']);
                tok_line(w, "parse_token", &[rk(x), rk(y), so, b'+']);
                tok_line(w, "parse_range", &[rk(x), rk(y), so]);
                tok_line(w, "parse_range", &[rk(x), rk(y), b'+']);
                for z in 0..13 {
                    tok_line(w, "parse_range", &[rk(x), rk(y), so, b'-', rk(x), rk(z), so]);
                    tok_line(w, "parse_token", &[rk(x), rk(y), so, b'-', rk(z), rk(x), so]);
                    let other = if so == b's' { b'o' } else { b's' };
                    tok_line(w, "parse_token", &[rk(x), rk(y), so, b'-', rk(x), rk(z), other]);
                }
            }
        }
    }
    for a in 0..52 {
        for b in 0..52 {
            tok_line(w, "parse_range", &[rk(a / 4), SUIT_CH[a % 4], rk(b / 4), SUIT_CH[b % 4]]);
        }
    }
}

pub fn gen_c09(tier: &str, rng: &mut Rng, w: &mut dyn Write) {
    // every string of length <= 3 over the notation alphabet extended by multi-byte characters, through every parser
    let alpha: Vec<&str> = vec!["A", "K", "T", "9", "2", "s", "h", "o", "d", "c", "+", "-", ":", ".", ",", "0", "1", "5", " ", "é", "€", "😀", "Q", "x", "\u{0663}", "\u{FF15}"];
    let ops = ["parse_rank", "parse_suit", "parse_card", "parse_pair", "parse_token", "parse_range"];
    writeln!(w, "parse_rank -\nparse_suit -\nparse_card -\nparse_pair -\nparse_token -\nparse_range -").unwrap();
    for a in &alpha {
        for op in ops {
            tok_line(w, op, a.as_bytes());
        }
        for b in &alpha {
            let s = format!("{}{}", a, b);
            for op in ops {
                tok_line(w, op, s.as_bytes());
            }
            for c in &alpha {
                let s = format!("{}{}{}", a, b, c);
                tok_line(w, "parse_token", s.as_bytes());
                tok_line(w, "parse_range", s.as_bytes());
                tok_line(w, "parse_pair", s.as_bytes());
            }
        }
    }
    shapes_stream(w);
    weight_strings_all_kinds(w);
    // non-ASCII decimal digits (Arabic-Indic, full-width, Devanagari) where the weight grammar expects digits
    for v in ["AA", "K8s+", "AQs-A9s", "88-66", "QQ+", "JTs", "AsKd"] {
        for d in ["\u{0663}", "\u{FF15}", "\u{096B}", "\u{06F7}"] {
            for lit in [format!("0.{}", d), format!("0.2{}", d), format!("0.{}5", d), format!("{}", d), format!("1.{}", d), format!("{}.5", d)] {
                let t = format!("{}:{}", v, lit);
                tok_line(w, "parse_token", t.as_bytes());
                tok_line(w, "parse_range", format!("KK,{}, 22", t).as_bytes());
            }
        }
    }
    // multi-byte characters spliced at every byte offset of valid texts
    let valid = ["AsKs", "QQ+", "A9s+:0.5", "88-66", "AQs-A9s:0.25", "AA:1", "As", "AsKs,QQ:0.5"];
    for v in valid {
        for ins in ["é", "€", "😀", "\u{0301}"] {
            for pos in 0..=v.len() {
                let s = format!("{}{}{}", &v[..pos], ins, &v[pos..]);
                for op in ops {
                    tok_line(w, op, s.as_bytes());
                }
            }
        }
    }
    // ASCII garbage spliced into / around every token kind (anchors, separators): one and two extra characters
    for v in ["88-66", "AQs-A9s", "QQ+", "A9o+", "77", "JTs", "AsKd", "AQs-A9s:0.5", "QQ+:1"] {
        for ins in ["x", "A", "s", "+", "-", ":", "0", ".", "Ks", "A-"] {
            for pos in 0..=v.len() {
                let t = format!("{}{}{}", &v[..pos], ins, &v[pos..]);
                tok_line(w, "parse_token", t.as_bytes());
                tok_line(w, "parse_range", t.as_bytes());
            }
        }
    }
    // over-long input
    let big = if tier == "thorough" { 1_000_000 } else { 20_000 };
    let mut s = b"AA:0.".to_vec();
    s.extend(std::iter::repeat(b'3').take(big));
    tok_line(w, "parse_token", &s);
    tok_line(w, "parse_range", &s);
    let mut s = b"AA:1.".to_vec();
    s.extend(std::iter::repeat(b'0').take(big));
    tok_line(w, "parse_range", &s);
    let many: Vec<&str> = std::iter::repeat("72o:0.5").take(if tier == "thorough" { 100_000 } else { 3_000 }).collect();
    tok_line(w, "parse_range", many.join(",").as_bytes());
    tok_line(w, "parse_card", &vec![b'A'; 1000]);
    tok_line(w, "parse_pair", &vec![b'A'; 1000]);
    // seeded random strings over a wide alphabet
    let wide: Vec<char> = "AKQJT98765432shdco+-:.,01 éß€😀Ａ\u{0}\n".chars().collect();
    for _ in 0..(if tier == "thorough" { 200_000 } else { 8_000 }) {
        let len = rng.below(10) as usize;
        let s: String = (0..len).map(|_| wide[rng.below(wide.len() as u64) as usize]).collect();
        tok_line(w, ops[rng.below(6) as usize], s.as_bytes());
    }
}

/// exact decimal expansion of n / 2^k (k <= 60, n < 2^k): finite, k digits
fn dyadic_decimal(mut n: u128, k: u32) -> String {
    let mut s = String::from("0.");
    let den: u128 = 1u128 << k;
    for _ in 0..k {
        n *= 10;
        s.push((b'0' + (n / den) as u8) as char);
        n %= den;
    }
    s
}

/// weight literals sitting just above / just below the midpoint of two neighbouring binary32 values (25+ significant
/// digits): the correctly rounded value is determined by the far-away digit
pub fn midpoint_literals(rng: &mut Rng, n: usize) -> Vec<String> {
    let mut out = vec![];
    for _ in 0..n {
        // a weight in [2^-9, 1): exponent e in 118..=126, 23-bit mantissa
        let e = 118 + rng.below(9) as u32;
        let m = rng.below(1 << 23) as u128;
        // value = (2^23 + m) * 2^(e - 150); midpoint with the next float = (2^24 + 2m + 1) * 2^(e - 151)
        let k = 151 - e; // 25..=33
        let mid_num: u128 = (1u128 << 24) + 2 * m + 1;
        let mid = dyadic_decimal(mid_num, k);
        // just above the midpoint: append a late 1; just below: decrement the last digit and append 9s
        out.push(format!("{}0000001", mid));
        let mut below: Vec<u8> = mid.clone().into_bytes();
        // the expansion ends in 5 (odd numerator over a power of two): ...5 -> ...4999999
        let last = below.len() - 1;
        below[last] -= 1;
        out.push(format!("{}9999999", String::from_utf8(below).unwrap()));
        out.push(mid);
    }
    out
}

/// every string of length <= 4 over the alphabet `0 1 . 5 x` as a weight literal on each of the seven token kinds
/// (each kind has its own copy of the weight sub-pattern)
pub fn weight_strings_all_kinds(w: &mut dyn Write) {
    let kinds: [&str; 7] = ["88-66", "AQs-A9s", "QQ+", "A9o+", "77", "JTs", "AsKd"];
    let alpha = [b'0', b'1', b'.', b'5', b'x'];
    let mut lits: Vec<Vec<u8>> = vec![vec![]];
    let mut frontier: Vec<Vec<u8>> = vec![vec![]];
    for _ in 0..4 {
        let mut next = vec![];
        for f in &frontier {
            for a in alpha {
                let mut g = f.clone();
                g.push(a);
                next.push(g);
            }
        }
        lits.extend(next.iter().cloned());
        frontier = next;
    }
    for k in kinds {
        for l in &lits {
            let mut s = k.as_bytes().to_vec();
            s.push(b':');
            s.extend_from_slice(l);
            tok_line(w, "parse_token", &s);
        }
    }
}

pub fn gen_c10(tier: &str, rng: &mut Rng, w: &mut dyn Write) {
    weight_strings_all_kinds(w);
    for l in midpoint_literals(rng, if tier == "thorough" { 3000 } else { 150 }) {
        tok_line(w, "parse_token", format!("AhKh:{}", l).as_bytes());
    }
    // every weight literal [01](.d{0,3})? on three token kinds (the grammar accepts exactly those <= 1)
    for lead in ["0", "1"] {
        let mut lits: Vec<String> = vec![lead.to_string(), format!("{}.", lead)];
        for d in 0..1000 {
            lits.push(format!("{}.{}", lead, d % 10));
            lits.push(format!("{}.{:02}", lead, d % 100));
            lits.push(format!("{}.{:03}", lead, d));
        }
        lits.sort();
        lits.dedup();
        for l in lits {
            tok_line(w, "parse_token", format!("AA:{}", l).as_bytes());
            tok_line(w, "parse_token", format!("AsKs:{}", l).as_bytes());
            tok_line(w, "parse_range", format!("A2s+:{}", l).as_bytes());
        }
    }
    for l in ["0.99999999999", "0.999999999999999999999", "1.0000000000000000000001", "0.0000000000000000000000000000000000000000000001",
              "0.00000000000000000000000000000000000000000000000000000000001", "2", "1.5", "1.999", "9", "-0", "-1", "1e0", "0x1", "inf", "nan", "1.", ".5", "00.5", "01"] {
        tok_line(w, "parse_token", format!("KK:{}", l).as_bytes());
        tok_line(w, "parse_range", format!("KK:{},QQ", l).as_bytes());
    }
    // very long weight literals whose first fractional digit is not 0: a conversion that accumulates digits in a machine
    // float leaves the range of f32 after 39 digits and of f64 after 309 (inf / inf = NaN); all nines, `1.000…0`, and
    // seeded digit strings, on a token, a single combo and a list
    for len in [25usize, 37, 38, 39, 40, 41, 45, 60, 100, 308, 309, 310, 330, 400] {
        let nines = format!("0.{}", "9".repeat(len));
        let one = format!("1.{}", "0".repeat(len));
        let mut rnd = String::from("0.");
        for i in 0..len {
            rnd.push((b'0' + if i == 0 { 1 + rng.below(9) as u8 } else { rng.below(10) as u8 }) as char);
        }
        for l in [nines, one, rnd] {
            tok_line(w, "parse_token", format!("AA:{}", l).as_bytes());
            tok_line(w, "parse_token", format!("Td9d:{}", l).as_bytes());
            tok_line(w, "parse_range", format!("K9s+:{},QQ", l).as_bytes());
        }
    }
    shapes_stream(w);
    // all 52 x 52 card-pair tokens, including both cards equal
    for a in 0..52 {
        for b in 0..52 {
            tok_line(w, "parse_token", &[rk(a / 4), SUIT_CH[a % 4], rk(b / 4), SUIT_CH[b % 4]]);
        }
        tok_line(w, "parse_range", format!("{}{}{}{}:0.5,QQ", rk(a / 4) as char, SUIT_CH[a % 4] as char, rk(a / 4) as char, SUIT_CH[a % 4] as char).as_bytes());
    }
    // showdown probabilities and card distinctness of enumerations over parsed ranges (two players)
    for _ in 0..(if tier == "thorough" { 300 } else { 20 }) {
        let t1 = ["AA:0.5", "AKs:0.25,AKo", "QQ+:0.3,AsKs", "72o:0.999", "A2s+:0.1"][rng.below(5) as usize];
        tok_line(w, "parse_range", t1.as_bytes());
    }
}

fn emit_range_ops(w: &mut dyn Write, es: &[(usize, u32)]) {
    let mut line = format!("range_ops {}", es.len());
    for (c, wb) in es {
        line.push_str(&format!(" {} {}", c, wb));
    }
    writeln!(w, "{}", line).unwrap();
}

fn pocket_combos(r: usize) -> Vec<usize> {
    let mut v = vec![];
    for s1 in 0..4 {
        for s2 in (s1 + 1)..4 {
            v.push(combo_code(4 * r + s1, 4 * r + s2));
        }
    }
    v
}

fn pair_combos(x: usize, y: usize, suited: bool) -> Vec<usize> {
    let mut v = vec![];
    for s1 in 0..4 {
        for s2 in 0..4 {
            if (s1 == s2) == suited {
                v.push(combo_code(4 * x + s1, 4 * y + s2));
            }
        }
    }
    v
}

/// weight pairs one ulp apart (equal for every practical purpose, different as values)
const ULP_PAIRS: [(u32, u32); 4] = [(0x3F000000, 0x3F000001), (0x3E99999A, 0x3E99999B), (0x3F7FFFFF, 0x3F800000), (0x3E800000, 0x3E7FFFFF)];
const WA: u32 = 0x3F000000; // 0.5
const WB: u32 = 0x3F800000; // 1.0

/// pattern digit 0 = absent, 1 = weight a, 2 = weight b
fn pattern_entries(combos: &[usize], mut pat: usize, background: &[(usize, u32)]) -> Vec<(usize, u32)> {
    let mut es: Vec<(usize, u32)> = background.to_vec();
    for c in combos {
        match pat % 3 {
            1 => es.push((*c, WA)),
            2 => es.push((*c, WB)),
            _ => {}
        }
        pat /= 3;
    }
    es
}

/// ranges collected with a weight of -0.0 (numerically inside [0,1]): alone, beside +0.0, inside complete rank pairs and runs
fn neg_zero_ranges(w: &mut dyn Write) {
    const NZ: u32 = 0x8000_0000;
    emit_range_ops(w, &[(combo_code(0, 4), NZ)]);
    emit_range_ops(w, &[(combo_code(0, 4), 0), (combo_code(1, 5), NZ)]);
    emit_range_ops(w, &[(combo_code(0, 4), NZ), (combo_code(0, 4), 0)]);
    emit_range_ops(w, &[(combo_code(0, 4), 0), (combo_code(0, 4), NZ)]);
    for r in [0usize, 6, 12] {
        let cs = pocket_combos(r);
        // the whole pocket pair at -0.0; at -0.0 except one combo at +0.0; a run of two pocket pairs, one at -0.0 one at +0.0
        emit_range_ops(w, &cs.iter().map(|c| (*c, NZ)).collect::<Vec<_>>());
        emit_range_ops(w, &cs.iter().enumerate().map(|(i, c)| (*c, if i == 2 { 0 } else { NZ })).collect::<Vec<_>>());
        let r2 = if r == 12 { 11 } else { r + 1 };
        let mut es: Vec<(usize, u32)> = cs.iter().map(|c| (*c, NZ)).collect();
        es.extend(pocket_combos(r2).iter().map(|c| (*c, 0u32)));
        emit_range_ops(w, &es);
    }
    for (x, y) in [(0usize, 1usize), (3, 9)] {
        for suited in [true, false] {
            let cs = pair_combos(x, y, suited);
            emit_range_ops(w, &cs.iter().map(|c| (*c, NZ)).collect::<Vec<_>>());
            let mut es: Vec<(usize, u32)> = cs.iter().map(|c| (*c, NZ)).collect();
            es.extend(pair_combos(x, y + 1, suited).iter().map(|c| (*c, 0u32)));
            emit_range_ops(w, &es);
        }
    }
}

fn emit_range_views(w: &mut dyn Write, es: &[(usize, u32)]) {
    let mut line = format!("range_views {}", es.len());
    for (c, wt) in es {
        line.push_str(&format!(" {} {}", c, wt));
    }
    writeln!(w, "{}", line).unwrap();
}

pub fn gen_c12(tier: &str, rng: &mut Rng, w: &mut dyn Write) {
    let thorough = tier == "thorough";
    neg_zero_ranges(w);
    // "for any range": weights outside [0,1] and the special values (1.5, 2, -1, +-inf, NaNs, +-smallest subnormal),
    // inside complete and incomplete rank pairs
    for wx in [0x3FC00000u32, 0x40000000, 0xBF800000, 0x7F800000, 0xFF800000, 0x7FC00000, 0xFFC00000, 0x00000001, 0x80000001] {
        for r in [0usize, 7] {
            let cs = pocket_combos(r);
            emit_range_views(w, &cs.iter().map(|c| (*c, wx)).collect::<Vec<_>>());
            emit_range_views(w, &cs.iter().enumerate().map(|(i, c)| (*c, if i == 1 { WA } else { wx })).collect::<Vec<_>>());
            emit_range_views(w, &cs.iter().take(5).map(|c| (*c, wx)).collect::<Vec<_>>());
        }
        for suited in [true, false] {
            let cs = pair_combos(2, 9, suited);
            emit_range_views(w, &cs.iter().map(|c| (*c, wx)).collect::<Vec<_>>());
            let mut es: Vec<(usize, u32)> = cs.iter().map(|c| (*c, wx)).collect();
            es.push((combo_code(0, 4), 0x7FC00000));
            emit_range_views(w, &es);
        }
    }
    // histories: a complete suited rank pair, then -- directly afterwards on the same thread -- the same eight cards
    // re-paired into four offsuit combos with the same weight (same size, same cards, same weights, different range):
    // an answer remembered from the previous range under a cheap fingerprint is wrong for the second one
    for x in 0..13usize {
        for y in (x + 1)..13 {
            for wt in [WB, WA] {
                let suited = pair_combos(x, y, true);
                emit_range_ops(w, &suited.iter().map(|c| (*c, wt)).collect::<Vec<_>>());
                let crossed: Vec<(usize, u32)> =
                    [(0usize, 1usize), (1, 0), (2, 3), (3, 2)].iter().map(|(s1, s2)| (combo_code(4 * x + s1, 4 * y + s2), wt)).collect();
                emit_range_ops(w, &crossed);
                // the same two steps through the views alone (nothing else is computed in between)
                emit_range_views(w, &suited.iter().map(|c| (*c, wt)).collect::<Vec<_>>());
                emit_range_views(w, &crossed);
            }
        }
    }
    // the combos (in iteration order) and the text of every rank pair, given in either rank order
    for r in 0..13 {
        writeln!(w, "rank_pair 0 {} 0", r).unwrap();
        for x in 0..13 {
            if x != r {
                writeln!(w, "rank_pair 1 {} {}\nrank_pair 2 {} {}", r, x, r, x).unwrap();
            }
        }
    }
    // every absent / weight-a / weight-b pattern inside one rank pair
    for r in 0..13 {
        let cs = pocket_combos(r);
        for pat in 0..729 {
            emit_range_ops(w, &pattern_entries(&cs, pat, &[]));
        }
    }
    for x in 0..13 {
        for y in (x + 1)..13 {
            let cs = pair_combos(x, y, true);
            for pat in 0..81 {
                emit_range_ops(w, &pattern_entries(&cs, pat, &[(combo_code(48, 51), WB)]));
            }
        }
    }
    // offsuit: thorough = all 3^12 patterns for two rank pairs and a seeded 5,000 for each other pair; quick = a seeded 3,000 for three pairs,
    // plus every pattern with at most two deviations from "all present with weight a"
    let mut off_pairs: Vec<(usize, usize)> = vec![];
    for x in 0..13 {
        for y in (x + 1)..13 {
            off_pairs.push((x, y));
        }
    }
    for (i, (x, y)) in off_pairs.iter().enumerate() {
        let cs = pair_combos(*x, *y, false);
        if thorough && (i == 0 || i == off_pairs.len() - 1) {
            // all 3^12 patterns for the first and the last offsuit rank pair (AKo, 32o)
            for pat in 0..531441 {
                emit_range_ops(w, &pattern_entries(&cs, pat, &[]));
            }
        } else {
            let base: usize = (0..12).map(|k| 3usize.pow(k)).sum(); // all digits 1
            emit_range_ops(w, &pattern_entries(&cs, base, &[]));
            for k in 0..12 {
                for d in [0usize, 2] {
                    let pat = base - 3usize.pow(k) + d * 3usize.pow(k);
                    emit_range_ops(w, &pattern_entries(&cs, pat, &[]));
                }
            }
            if thorough || i % 26 == 0 {
                for _ in 0..(if thorough { 5000 } else { 3000 }) {
                    emit_range_ops(w, &pattern_entries(&cs, rng.below(531441) as usize, &[]));
                }
            }
        }
    }
    // weights one ulp apart inside one rank pair: all combos present, one or two of them off by an ulp
    for (wa, wb) in ULP_PAIRS {
        for r in [0usize, 5, 12] {
            let cs = pocket_combos(r);
            for odd in 0..cs.len() {
                let es: Vec<(usize, u32)> = cs.iter().enumerate().map(|(i, c)| (*c, if i == odd { wb } else { wa })).collect();
                emit_range_ops(w, &es);
            }
        }
        for (x, y) in [(0usize, 1usize), (3, 9), (11, 12)] {
            for suited in [true, false] {
                let cs = pair_combos(x, y, suited);
                for odd in 0..cs.len() {
                    let es: Vec<(usize, u32)> = cs.iter().enumerate().map(|(i, c)| (*c, if i == odd { wb } else { wa })).collect();
                    emit_range_ops(w, &es);
                    let es2: Vec<(usize, u32)> = cs.iter().enumerate().map(|(i, c)| (*c, if i == odd { wa } else { wb })).collect();
                    emit_range_ops(w, &es2);
                }
            }
        }
        // neighbouring rank pairs one ulp apart must not merge into one run
        emit_range_ops(w, &row_range(&[1, 2, 2, 1, 0, 1, 2, 1, 2, 2, 0, 0, 1], &[(0, vec![1, 2, 1, 1, 2, 2, 0, 1, 2, 0, 0, 1])], &[(1, vec![2, 1, 2, 1, 0, 0, 1, 1, 2, 2, 1])], wa, wb));
    }
    // small mixed ranges: one to three complete rank pairs plus a few stray combos, among them probe combos
    // (spade/heart, spade/spade) of other, incomplete rank pairs
    for _ in 0..(if thorough { 20000 } else { 1500 }) {
        let mut es: Vec<(usize, u32)> = vec![];
        for _ in 0..(1 + rng.below(3)) {
            let x = rng.below(13) as usize;
            let y = rng.below(13) as usize;
            let wt = [WA, WB, 0x3E800000][rng.below(3) as usize];
            let cs = if x == y { pocket_combos(x) } else { pair_combos(x.min(y), x.max(y), rng.below(2) == 0) };
            for c in cs {
                es.push((c, wt));
            }
        }
        for _ in 0..rng.below(4) {
            let x = rng.below(13) as usize;
            let y = rng.below(13) as usize;
            // probe-shaped strays: spade+heart, or spade+spade
            let c = if x == y { combo_code(4 * x, 4 * x + 1) } else if rng.below(2) == 0 { combo_code(4 * x, 4 * y) } else { combo_code(4 * x.min(y), 4 * x.max(y) + 1) };
            es.push((c, [WA, WB][rng.below(2) as usize]));
        }
        // strays first or last (scan order vs. insertion order are unrelated, but both are cheap to vary)
        if rng.below(2) == 0 {
            es.reverse();
        }
        es.sort_by_key(|e| e.0);
        es.dedup_by_key(|e| e.0);
        emit_range_ops(w, &es);
    }
    // whole ranges: seeded subsets with two or three weights; full and nearly full ranges
    let all = all_combos();
    for i in 0..(if thorough { 3000 } else { 150 }) {
        let density = 1 + rng.below(10);
        let mut es: Vec<(usize, u32)> = vec![];
        for c in all.iter() {
            if rng.below(10) < density {
                es.push((*c, [WA, WB, 0x3E800000][rng.below(2 + (i % 2) as u64) as usize]));
            }
        }
        emit_range_ops(w, &es);
    }
    let full: Vec<(usize, u32)> = all.iter().map(|c| (*c, WB)).collect();
    emit_range_ops(w, &full);
    emit_range_ops(w, &full[1..]);
    emit_range_ops(w, &[]);
    // duplicate keys in the construction (a later insert overwrites)
    let mut es = pattern_entries(&pocket_combos(0), 728, &[]);
    es.extend(pattern_entries(&pocket_combos(0), 364, &[]));
    emit_range_ops(w, &es);
}

/// a range made of complete rank pairs along the rows, digit 0 = absent, 1 = weight a, 2 = weight b
fn row_range(pocket_pat: &[u8], suited: &[(usize, Vec<u8>)], ofsuit: &[(usize, Vec<u8>)], wa: u32, wb: u32) -> Vec<(usize, u32)> {
    let mut es = vec![];
    let wt = |d: u8| if d == 1 { wa } else { wb };
    for (r, d) in pocket_pat.iter().enumerate() {
        if *d != 0 {
            for c in pocket_combos(r) {
                es.push((c, wt(*d)));
            }
        }
    }
    for (h, pat) in suited {
        for (i, d) in pat.iter().enumerate() {
            if *d != 0 {
                for c in pair_combos(*h, h + 1 + i, true) {
                    es.push((c, wt(*d)));
                }
            }
        }
    }
    for (h, pat) in ofsuit {
        for (i, d) in pat.iter().enumerate() {
            if *d != 0 {
                for c in pair_combos(*h, h + 1 + i, false) {
                    es.push((c, wt(*d)));
                }
            }
        }
    }
    es
}

fn digits3(mut n: usize, len: usize) -> Vec<u8> {
    let mut v = vec![];
    for _ in 0..len {
        v.push((n % 3) as u8);
        n /= 3;
    }
    v
}

pub fn gen_c06(tier: &str, rng: &mut Rng, w: &mut dyn Write) {
    neg_zero_ranges(w);
    let thorough = tier == "thorough";
    let weights: [u32; 7] = [0x3F000000, 0x3DCCCCCD, 0x3F7FFFFF, 0x00000001, 0, 0x3E99999A, 0x33D6BF95];
    // every present/absent/other-weight pattern along short rows (high cards with at most 7 kickers), suited and offsuit
    for h in 5..12 {
        let len = 12 - h;
        for pat in 0..3usize.pow(len as u32) {
            let d = digits3(pat, len);
            let (wa, wb) = (weights[pat % 7], 0x3F800000);
            emit_range_ops(w, &row_range(&[], &[(h, d.clone())], &[], wa, wb));
            if pat % 3 == 0 || thorough {
                emit_range_ops(w, &row_range(&[], &[], &[(h, d)], wa, wb));
            }
        }
    }
    // the pocket row: all 3^13 patterns in the thorough tier, all patterns over the top 7 and the bottom 7 ranks + seeded ones in quick
    if thorough {
        for pat in 0..1594323 {
            emit_range_ops(w, &row_range(&digits3(pat, 13), &[], &[], weights[pat % 7], 0x3F800000));
        }
    } else {
        for pat in 0..2187 {
            let mut d = digits3(pat, 7);
            d.extend(vec![0u8; 6]);
            emit_range_ops(w, &row_range(&d, &[], &[], weights[pat % 7], 0x3F800000));
            let mut d2 = vec![0u8; 6];
            d2.extend(digits3(pat, 7));
            emit_range_ops(w, &row_range(&d2, &[], &[], 0x3F800000, weights[pat % 7]));
        }
        for _ in 0..3000 {
            emit_range_ops(w, &row_range(&digits3(rng.below(1594323) as usize, 13), &[], &[], weights[rng.below(7) as usize], weights[rng.below(7) as usize]));
        }
    }
    // weights one ulp apart along rows and inside rank pairs
    for (wa, wb) in ULP_PAIRS {
        for _ in 0..(if thorough { 200 } else { 25 }) {
            let h = rng.below(8) as usize;
            let len = 12 - h;
            let d1 = digits3(rng.below(3u64.pow(len as u32)) as usize, len);
            let d2 = digits3(rng.below(3u64.pow(len as u32)) as usize, len);
            let dp = digits3(rng.below(1594323) as usize, 13);
            let mut es = row_range(&dp, &[(h, d1)], &[(h, d2)], wa, wb);
            if rng.below(2) == 0 {
                // break one rank pair by an ulp
                let k = rng.below(es.len().max(1) as u64) as usize;
                if let Some(e) = es.get_mut(k) {
                    e.1 = if e.1 == wa { wb } else { wa };
                }
            }
            emit_range_ops(w, &es);
        }
    }
    // long rows (ace / king high): seeded three-valued patterns; mixed rows together with partial rank pairs and single combos
    for _ in 0..(if thorough { 40000 } else { 2500 }) {
        let h = rng.below(5) as usize;
        let len = 12 - h;
        let d1 = digits3(rng.below(3u64.pow(len as u32)) as usize, len);
        let d2 = digits3(rng.below(3u64.pow(len as u32)) as usize, len);
        let dp = digits3(rng.below(1594323) as usize, 13);
        let mut es = row_range(&dp, &[(h, d1)], &[(h, d2)], weights[rng.below(7) as usize], weights[rng.below(7) as usize]);
        // leftovers: a few single combos (possibly breaking a rank pair) with their own weights
        for _ in 0..rng.below(6) {
            let a = rng.below(52) as usize;
            let b = rng.below(52) as usize;
            if a != b {
                es.push((combo_code(a, b), weights[rng.below(7) as usize]));
            }
        }
        emit_range_ops(w, &es);
    }
    // partial patterns inside one rank pair with boundary weights
    for r in [0usize, 6, 12] {
        for pat in 0..729 {
            let mut es = vec![];
            let mut p = pat;
            for c in pocket_combos(r) {
                match p % 3 {
                    1 => es.push((c, weights[pat % 7])),
                    2 => es.push((c, 0x3F800000)),
                    _ => {}
                }
                p /= 3;
            }
            emit_range_ops(w, &es);
        }
    }
    // every well-formed token: its text parses back to an equal token (compared through Display and the expansion)
    for t in wf_tokens() {
        for l in ["", ":0.5", ":0.1"] {
            let mut s = t.clone();
            s.extend_from_slice(l.as_bytes());
            tok_line(w, "token_roundtrip", &s);
        }
    }
}

/// a seeded three-valued pattern along the whole kicker row of a seeded high card (ace .. trey)
fn rand_row(rng: &mut Rng) -> (usize, Vec<u8>) {
    let h = rng.below(12) as usize;
    let len = 12 - h;
    (h, digits3(rng.below(3u64.pow(len as u32)) as usize, len))
}

pub fn gen_c17(tier: &str, rng: &mut Rng, w: &mut dyn Write) {
    neg_zero_ranges(w);
    // the same contents with -0.0 in place of +0.0 (`==`-equal ranges) must print identically
    writeln!(w, "canon 7 1 4 2147483648").unwrap();
    writeln!(w, "canon 8 2 4 0 57 2147483648").unwrap();
    writeln!(w, "canon 9 3 4 2147483648 57 1056964608 110 2147483648").unwrap();
    // every single rank pair alone, and every pair of neighbouring rank pairs of a row
    for h in 0..12usize {
        for k in (h + 1)..13 {
            for suited in [true, false] {
                let mut es: Vec<(usize, u32)> = pair_combos(h, k, suited).into_iter().map(|c| (c, 0x3F000000)).collect();
                emit_range_ops(w, &es);
                if k + 1 < 13 {
                    es.extend(pair_combos(h, k + 1, suited).into_iter().map(|c| (c, 0x3F000000)));
                    emit_range_ops(w, &es);
                }
            }
        }
    }
    let thorough = tier == "thorough";
    let all = all_combos();
    let proper: [u32; 8] = [0x3F800000, 0x3F000000, 0x3DCCCCCD, 0x3E800000, 0x3F7FFFFF, 0, 0x3F000001, 0x3E7FFFFF];
    for i in 0..(if thorough { 40000 } else { 300 }) {
        let es: Vec<(usize, u32)> = if i % 3 == 0 {
            // rows of complete rank pairs plus leftovers
            let mut es = row_range(&digits3(rng.below(1594323) as usize, 13), &[rand_row(rng)],
                                   &[rand_row(rng)], proper[1 + rng.below(7) as usize], proper[rng.below(8) as usize]);
            for _ in 0..rng.below(5) {
                es.push((all[rng.below(1326) as usize], proper[rng.below(8) as usize]));
            }
            // one weight per combo (the histories are permutations of this list)
            es.sort();
            es.dedup_by_key(|e| e.0);
            es
        } else {
            let density = 1 + rng.below(9);
            let mut es: Vec<(usize, u32)> = vec![];
            for c in all.iter() {
                if rng.below(40) < density {
                    es.push((*c, proper[rng.below(8) as usize]));
                }
            }
            es
        };
        let mut line = format!("canon {} {}", rng.next() % 1_000_000, es.len());
        for (c, wb) in &es {
            line.push_str(&format!(" {} {}", c, wb));
        }
        writeln!(w, "{}", line).unwrap();
        if i % 2 == 0 {
            emit_range_ops(w, &es);
        }
    }
    let _ = W_PALETTE;
}

/// C15: k evaluators with their own flop / ranges / scope, interleaved and threaded
pub fn gen_c15(tier: &str, rng: &mut Rng, w: &mut dyn Write) {
    use crate::gen2::{random_flop, random_pos, random_range};
    for _ in 0..(if tier == "thorough" { 2000 } else { 40 }) {
        let k = 2 + rng.below(5) as usize;
        let mut line = format!("c15 {} {}", rng.next() % 1_000_000_007, k);
        let shared_ranges: Vec<Vec<(usize, u32)>> = (0..2).map(|_| { let sz = 1 + rng.below(3) as usize; random_range(rng, sz, false) }).collect();
        let shared_flop = random_flop(rng);
        let mode = rng.below(4); // 0: independent inputs, 1/3: same ranges on different flops (3: the ranges hold cards of those flops), 2: same flop
        for inst in 0..k {
            let mut flop = if mode == 2 { shared_flop } else { random_flop(rng) };
            if (mode == 1 || mode == 3) && inst > 0 {
                // differ from the shared flop in one card only
                flop = shared_flop;
                loop {
                    let c = rng.below(52) as usize;
                    if !flop.contains(&c) {
                        flop[2] = c;
                        break;
                    }
                }
            }
            let (mut a, mut b) = (random_pos(rng), random_pos(rng));
            if b < a {
                std::mem::swap(&mut a, &mut b);
            }
            let scoped = mode == 0 && rng.below(3) != 0;
            let np = if mode == 1 || mode == 3 { 2 } else { 1 + rng.below(2) as usize };
            line.push_str(&format!(" | 1 digest 0 {} {} {} - - {} {} {} {} {} {}", flop[0], flop[1], flop[2], a.0, a.1, b.0, b.1, scoped as u8, np));
            for pi in 0..np {
                let sz = 1 + rng.below(4) as usize;
                let r = if mode == 1 { shared_ranges[pi].clone() } else if mode == 3 {
                    // the shared ranges of mode 3: a combo through the shared flop's third card, one through card 0/1, plus the seeded ones
                    let mut v = shared_ranges[pi].clone();
                    let extra = [combo_code(shared_flop[2], (shared_flop[2] + 7 + pi) % 52), combo_code((shared_flop[0] + 13) % 52, (shared_flop[1] + 26) % 52)];
                    for c in extra {
                        if c / 52 != c % 52 && !v.iter().any(|e| e.0 == c) {
                            v.push((c, 0x3F800000));
                        }
                    }
                    v
                } else { random_range(rng, sz, false) };
                line.push_str(&format!(" {}", r.len()));
                for (c, wb) in r {
                    line.push_str(&format!(" {} {}", c, wb));
                }
            }
        }
        writeln!(w, "{}", line).unwrap();
    }
}

pub fn gen_c16(tier: &str, rng: &mut Rng, w: &mut dyn Write) {
    for n in 1..=4096 {
        writeln!(w, "scopes {}", n).unwrap();
    }
    if tier == "thorough" {
        // larger worker counts: well-formedness + digest only (the lists get long)
        let mut n = 4097u32;
        while n <= 65536 {
            writeln!(w, "scopes_d {}", n).unwrap();
            n += 41 + (n % 13);
        }
        for n in [100_000u32, 1_000_003] {
            writeln!(w, "scopes_d {}", n).unwrap();
        }
    }
    // end to end on the real evaluator: the per-scope results add up to the unscoped result
    let mut ns: Vec<u64> = vec![1, 2, 3, 4, 7, 10, 15, 16, 17, 31, 63, 64, 127, 255, 256, 1000, 2305, 4000];
    for _ in 0..(if tier == "thorough" { 40 } else { 6 }) {
        ns.push(1 + rng.below(3000));
    }
    for n in ns {
        writeln!(w, "scopes_e2e {}", n).unwrap();
    }
    // a known hole card sitting on the row / column of a cut: every cut of the small worker counts, sampled cuts of larger ones
    for n in 1..=(if tier == "thorough" { 48u64 } else { 12 }) {
        for v in 1..=2 * n {
            writeln!(w, "scopes_e2e {} {}", n, v).unwrap();
        }
    }
    for _ in 0..(if tier == "thorough" { 400 } else { 40 }) {
        let n = 13 + rng.below(300);
        writeln!(w, "scopes_e2e {} {}", n, 1 + rng.below(2 * n)).unwrap();
    }
}

/// C11: inputs with 2-3 players and ranges of 1..60 combos (kept small enough for 24 + 3 re-enumerations)
pub fn gen_c11(tier: &str, rng: &mut Rng, w: &mut dyn Write) {
    use crate::gen2::{random_flop, random_range};
    // two players sharing a card of every rank (so that under the 24 relabellings every suit of that rank is shared once)
    for r in 0..13usize {
        let x = 4 * r + (r % 4);
        let flop = [(x + 5) % 52, (x + 9) % 52, (x + 14) % 52];
        let line = format!("c11 {} 1 digest 0 {} {} {} - - 0 1 48 49 0 2 2 {} 1065353216 {} 1056964608 2 {} 1065353216 {} 1048576000",
            2 * (r as u64 + 1), flop[0], flop[1], flop[2],
            combo_code(x, (x + 17) % 52), combo_code((x + 22) % 52, (x + 30) % 52),
            combo_code(x, (x + 25) % 52), combo_code((x + 31) % 52, (x + 40) % 52));
        writeln!(w, "{}", line).unwrap();
    }
    for i in 0..(if tier == "thorough" { 4000 } else { 24 }) {
        let flop = random_flop(rng);
        let np = 2 + rng.below(2) as usize;
        let all24 = tier == "thorough" || i % 6 == 0;
        let mut line = format!("c11 {} 1 digest 0 {} {} {} - - 0 1 48 49 0 {}", 2 * (rng.next() % 1_000_000) + (if all24 { 0 } else { 1 }), flop[0], flop[1], flop[2], np);
        for _ in 0..np {
            let sz = if np == 2 { 1 + rng.below(if all24 { 6 } else { 25 }) as usize } else { 1 + rng.below(4) as usize };
            let r = random_range(rng, sz, i % 2 == 0);
            line.push_str(&format!(" {}", r.len()));
            for (c, wb) in r {
                line.push_str(&format!(" {} {}", c, wb));
            }
        }
        writeln!(w, "{}", line).unwrap();
    }
}
