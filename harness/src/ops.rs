//! one request line -> the real crate's canonical answer
use crate::util::*;
use espada::card::{Card, Rank, RankRange, Suit, SuitRange};
use espada::hand_range::CardPair;
use std::hash::{Hash, Hasher};
use std::str::FromStr;

fn ord_str(o: std::cmp::Ordering) -> &'static str {
    match o {
        std::cmp::Ordering::Less => "lt",
        std::cmp::Ordering::Equal => "eq",
        std::cmp::Ordering::Greater => "gt",
    }
}

pub fn fx_hash<T: Hash>(t: &T) -> u64 {
    let mut h = fxhash::FxHasher::default();
    t.hash(&mut h);
    h.finish()
}

pub fn res3<T>(r: Option<Result<T, ()>>, show: impl Fn(&T) -> String) -> String {
    match r {
        None => "panic".to_string(),
        Some(Err(())) => "err".to_string(),
        Some(Ok(v)) => format!("ok {}", show(&v)).trim_end().to_string(),
    }
}

fn opt_idx(o: Option<Rank>) -> String {
    match o {
        None => "none".to_string(),
        Some(r) => format!("some {}", rank_idx(&r)),
    }
}

pub fn run_op(line: &str) -> String {
    let mut it = line.split_whitespace();
    let op = match it.next() {
        Some(o) => o,
        None => return String::new(),
    };
    let a: Vec<&str> = it.collect();
    let n = |i: usize| -> usize { a[i].parse::<usize>().unwrap() };
    match op {
        // ---------------------------------------------------------------- whole-domain tabulations (translator fallback)
        // every Unicode scalar value through `Rank::try_from(char)` / `Suit::try_from(char)`: the accepted ones, "cp:index"
        "tab_rank_chars" | "tab_suit_chars" => {
            let mut v: Vec<String> = vec![];
            for cp in 0u32..=0x10FFFF {
                if let Some(ch) = char::from_u32(cp) {
                    let r: Option<Option<usize>> = if op == "tab_rank_chars" {
                        guarded(|| Rank::try_from(ch).ok().map(|r| rank_idx(&r)))
                    } else {
                        guarded(|| Suit::try_from(ch).ok().map(|r| suit_idx(&r)))
                    };
                    match r {
                        None => v.push(format!("{}:panic", cp)),
                        Some(Some(i)) => v.push(format!("{}:{}", cp, i)),
                        Some(None) => {}
                    }
                }
            }
            v.join(",")
        }
        // ---------------------------------------------------------------- C13
        "rank_u8" => format!("{}", u8::from(rank_of(n(0)))),
        "suit_u8" => format!("{}", u8::from(suit_of(n(0)))),
        "rank_char" => format!("{}", char::from(rank_of(n(0))) as u32),
        "suit_char" => format!("{}", char::from(suit_of(n(0))) as u32),
        "rank_next" => opt_idx(rank_of(n(0)).next()),
        "rank_prev" => opt_idx(rank_of(n(0)).prev()),
        "rank_cmp" => ord_str(rank_of(n(0)).cmp(&rank_of(n(1)))).to_string(),
        "suit_cmp" => ord_str(suit_of(n(0)).cmp(&suit_of(n(1)))).to_string(),
        "card_cmp" => ord_str(card_of(n(0)).cmp(&card_of(n(1)))).to_string(),
        "u64_of_card" => format!("{}", u64::from(card_of(n(0)))),
        // C13: each card -> its bit -> back to itself, and no other card shares the bit
        "card_bits_rt" => {
            let c = card_of(n(0));
            let bits = u64::from(c);
            let shared = (0..52).filter(|d| *d != n(0) && u64::from(card_of(*d)) == bits).count();
            match guarded(|| Card::from(bits)) {
                Some(back) => format!("ok {} distinct={}", card_code(&back), (shared == 0) as u8),
                None => "panic".to_string(),
            }
        }
        "card_of_u64" => {
            let v: u64 = a[0].parse().unwrap();
            match guarded(|| Card::from(v)) {
                Some(c) => format!("ok {}", card_code(&c)),
                None => "panic".to_string(),
            }
        }
        "show_card" => hex(format!("{}", card_of(n(0))).as_bytes()),
        "show_rank" => hex(format!("{}", rank_of(n(0))).as_bytes()),
        "show_suit" => hex(format!("{}", suit_of(n(0))).as_bytes()),
        "parse_rank" => {
            let s = unhex_str(a[0]);
            res3(guarded(|| Rank::from_str(&s)), |r| format!("{}", rank_idx(r)))
        }
        "parse_suit" => {
            let s = unhex_str(a[0]);
            res3(guarded(|| Suit::from_str(&s)), |r| format!("{}", suit_idx(r)))
        }
        "parse_card" => {
            let s = unhex_str(a[0]);
            res3(guarded(|| Card::from_str(&s).map_err(|_| ())), |c| {
                format!("{}", card_code(c))
            })
        }
        "parse_pair" => {
            let s = unhex_str(a[0]);
            res3(guarded(|| CardPair::from_str(&s).map_err(|_| ())), |p| {
                format!("{}", pair_code(p))
            })
        }
        "rank_range" => {
            let (x, y, incl) = (rank_of(n(0)), rank_of(n(1)), n(2) == 1);
            match guarded(|| {
                let r = if incl {
                    RankRange::inclusive(x, y)
                } else {
                    RankRange::new(x, y)
                };
                r.into_iter()
                    .map(|r| rank_idx(&r).to_string())
                    .collect::<Vec<_>>()
            }) {
                Some(v) => format!("ok {}", v.join(" ")).trim_end().to_string(),
                None => "panic".to_string(),
            }
        }
        "rank_all" => {
            let v: Vec<String> = RankRange::all()
                .into_iter()
                .map(|r| rank_idx(&r).to_string())
                .collect();
            format!("ok {}", v.join(" "))
        }
        "suit_range" => {
            let (x, y, incl) = (suit_of(n(0)), suit_of(n(1)), n(2) == 1);
            match guarded(|| {
                let r = if incl {
                    SuitRange::inclusive(x, y)
                } else {
                    SuitRange::new(x, y)
                };
                r.into_iter()
                    .map(|r| suit_idx(&r).to_string())
                    .collect::<Vec<_>>()
            }) {
                Some(v) => format!("ok {}", v.join(" ")).trim_end().to_string(),
                None => "panic".to_string(),
            }
        }
        "suit_all" => {
            let v: Vec<String> = SuitRange::all()
                .into_iter()
                .map(|r| suit_idx(&r).to_string())
                .collect();
            format!("ok {}", v.join(" "))
        }
        // ---------------------------------------------------------------- C14
        // mk_pair a b : stored (first, second) of CardPair::new(a, b), plus implementation-only facts
        //   eqsym = (new(a,b) == new(b,a)), hsym = (hash(new(a,b)) == hash(new(b,a))), le = (p[0] <= p[1])
        "mk_pair" => {
            let (x, y) = (card_of(n(0)), card_of(n(1)));
            let p = CardPair::new(x, y);
            let q = CardPair::new(y, x);
            format!(
                "{} {} eqsym={} hsym={} le={}",
                card_code(&p[0]),
                card_code(&p[1]),
                (p == q) as u8,
                (fx_hash(&p) == fx_hash(&q)) as u8,
                (p[0] <= p[1]) as u8
            )
        }
        "show_pair" => hex(format!("{}", CardPair::new(card_of(n(0)), card_of(n(1)))).as_bytes()),
        "pair_index" => {
            let p = CardPair::new(card_of(n(0)), card_of(n(1)));
            let i = n(2);
            match guarded(|| p[i]) {
                Some(c) => format!("ok {}", card_code(&c)),
                None => "panic".to_string(),
            }
        }
        _ => crate::ops2::run_op2(op, &a),
    }
}

/// sub-commands other than gen/exec (process-level checks); returns false if unknown
pub fn special(cmd: &str, args: &[String]) -> bool {
    crate::ops2::special(cmd, args)
}
