//! espada-harness: runs the real crate (path dependency on /repo) on the line protocol shared with
//! the Lean model driver.
//!
//!   espada-harness gen  <PROP> <tier> <seed>     -> one request per line on stdout
//!   espada-harness exec                          -> reads requests on stdin, prints the crate's answer per line
//!
//! Ranks/suits/cards travel as DECLARATION INDEXES (what the derived `Ord` sees): card = 4*rank+suit.
//! Strings travel hex-encoded.  Answers are `ok ..`, `err`, or `panic`.

mod gen;
mod ops;
mod util;
mod ops2;
mod ops3;
mod gen2;
mod gen3;
#[path = "/repo/examples/multi-thread/scope.rs"]
#[allow(dead_code)]
mod scope;

use std::io::{BufRead, Write};

fn main() {
    let args: Vec<String> = std::env::args().collect();
    if args.len() < 2 {
        eprintln!("usage: espada-harness gen <PROP> <tier> <seed> | exec");
        std::process::exit(2);
    }
    match args[1].as_str() {
        "gen" => {
            let prop = &args[2];
            let tier = &args[3];
            let seed: u64 = args[4].parse().unwrap_or(0);
            let out = std::io::stdout();
            let mut w = std::io::BufWriter::with_capacity(1 << 20, out.lock());
            gen::generate(prop, tier, seed, &mut w);
            w.flush().unwrap();
        }
        "exec" => {
            util::silence_panics();
            // a roomy stack: stack-depth behaviour is C08's business and is observed in child processes
            let th = std::thread::Builder::new()
                .stack_size(2 << 30)
                .spawn(|| {
                    let stdin = std::io::stdin();
                    let out = std::io::stdout();
                    let mut w = std::io::BufWriter::with_capacity(1 << 20, out.lock());
                    for line in stdin.lock().lines() {
                        let line = line.unwrap();
                        let ans = ops::run_op(&line);
                        writeln!(w, "{}", ans).unwrap();
                    }
                    w.flush().unwrap();
                })
                .unwrap();
            th.join().unwrap();
        }
        other => {
            if !ops::special(other, &args[2..]) {
                eprintln!("unknown sub-command {}", other);
                std::process::exit(2);
            }
        }
    }
}
