use espada::card::{Card, Rank, Suit};
use espada::hand_range::CardPair;
use std::panic::{catch_unwind, AssertUnwindSafe};

pub fn silence_panics() {
    std::panic::set_hook(Box::new(|_| {}));
}

/// run `f`, mapping a panic to `None`
pub fn guarded<T>(f: impl FnOnce() -> T) -> Option<T> {
    catch_unwind(AssertUnwindSafe(f)).ok()
}

const NAMED_RANKS: [Rank; 13] = [
    Rank::Ace,
    Rank::King,
    Rank::Queen,
    Rank::Jack,
    Rank::Ten,
    Rank::Nine,
    Rank::Eight,
    Rank::Seven,
    Rank::Six,
    Rank::Five,
    Rank::Four,
    Rank::Trey,
    Rank::Deuce,
];
const NAMED_SUITS: [Suit; 4] = [Suit::Spade, Suit::Heart, Suit::Diamond, Suit::Club];

/// rank with the given declaration index (`as usize` of a fieldless enum = declaration index)
pub fn rank_of(i: usize) -> Rank {
    for r in NAMED_RANKS {
        if r as usize == i {
            return r;
        }
    }
    panic!("harness: no rank with declaration index {}", i)
}
pub fn suit_of(i: usize) -> Suit {
    for s in NAMED_SUITS {
        if s as usize == i {
            return s;
        }
    }
    panic!("harness: no suit with declaration index {}", i)
}
pub fn rank_idx(r: &Rank) -> usize {
    *r as usize
}
pub fn suit_idx(s: &Suit) -> usize {
    *s as usize
}
pub fn card_of(code: usize) -> Card {
    Card::new(rank_of(code / 4), suit_of(code % 4))
}
pub fn card_code(c: &Card) -> usize {
    rank_idx(c.rank()) * 4 + suit_idx(c.suit())
}
pub fn pair_code(p: &CardPair) -> usize {
    52 * card_code(&p[0]) + card_code(&p[1])
}
/// build the stored pair through the public constructor
pub fn pair_of(code: usize) -> CardPair {
    CardPair::new(card_of(code / 52), card_of(code % 52))
}

pub fn hex(bytes: &[u8]) -> String {
    if bytes.is_empty() {
        return "-".to_string();
    }
    let mut s = String::with_capacity(bytes.len() * 2);
    for b in bytes {
        s.push_str(&format!("{:02x}", b));
    }
    s
}
pub fn unhex(s: &str) -> Vec<u8> {
    if s == "-" {
        return vec![];
    }
    (0..s.len() / 2)
        .map(|i| u8::from_str_radix(&s[2 * i..2 * i + 2], 16).unwrap())
        .collect()
}
/// hex -> String (the protocol only carries valid UTF-8)
pub fn unhex_str(s: &str) -> String {
    String::from_utf8(unhex(s)).expect("harness: request is not valid UTF-8")
}

/// splitmix64: every random choice of a run derives from one seed
pub struct Rng(pub u64);
impl Rng {
    pub fn next(&mut self) -> u64 {
        self.0 = self.0.wrapping_add(0x9E3779B97F4A7C15);
        let mut z = self.0;
        z = (z ^ (z >> 30)).wrapping_mul(0xBF58476D1CE4E5B9);
        z = (z ^ (z >> 27)).wrapping_mul(0x94D049BB133111EB);
        z ^ (z >> 31)
    }
    pub fn below(&mut self, n: u64) -> u64 {
        self.next() % n
    }
    pub fn shuffle<T>(&mut self, v: &mut [T]) {
        for i in (1..v.len()).rev() {
            let j = self.below(i as u64 + 1) as usize;
            v.swap(i, j);
        }
    }
    /// k distinct values below n
    pub fn distinct(&mut self, k: usize, n: u64) -> Vec<u64> {
        let mut out: Vec<u64> = Vec::with_capacity(k);
        while out.len() < k {
            let x = self.below(n);
            if !out.contains(&x) {
                out.push(x);
            }
        }
        out
    }
}
