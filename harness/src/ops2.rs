//! further operations (evaluator, iterator, ranges, scopes) -- grown property by property
use crate::util::*;
use espada::card::Card;
use espada::evaluator::MadeHand;

pub fn run_op2(op: &str, a: &[&str]) -> String {
    let n = |i: usize| -> usize { a[i].parse::<usize>().unwrap() };
    match op {
        // eval7 c1 .. c7 -> ok <power index> <category Debug name>
        "eval7" => {
            let cards: [Card; 7] = [
                card_of(n(0)),
                card_of(n(1)),
                card_of(n(2)),
                card_of(n(3)),
                card_of(n(4)),
                card_of(n(5)),
                card_of(n(6)),
            ];
            match guarded(|| {
                let h: MadeHand = cards.into();
                (h.power_index(), format!("{:?}", h.hand_type()))
            }) {
                Some((i, c)) => format!("ok {} {}", i, c),
                None => "panic".to_string(),
            }
        }
        _ => format!("bad-op {}", op),
    }
}

pub fn special(_cmd: &str, _args: &[String]) -> bool {
    false
}
