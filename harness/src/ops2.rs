//! further operations (evaluator, iterator, ranges, scopes) -- grown property by property
use crate::util::*;
use espada::card::Card;
use espada::evaluator::{MadeHand, Showdown};
use espada::hand_range::CardPair;

pub fn run_op2(op: &str, a: &[&str]) -> String {
    let n = |i: usize| -> usize { a[i].parse::<usize>().unwrap() };
    match op {
        // eval7 c1 .. c7 -> ok <power index> <category Debug name>
        "eval7" => {
            let cards: [Card; 7] = [
                card_of(n(0)),
                card_of(n(1)),
                card_of(n(2)),
                card_of(n(3)),
                card_of(n(4)),
                card_of(n(5)),
                card_of(n(6)),
            ];
            match guarded(|| {
                let h: MadeHand = cards.into();
                (h.power_index(), format!("{:?}", h.hand_type()))
            }) {
                Some((i, c)) => format!("ok {} {}", i, c),
                None => "panic".to_string(),
            }
        }
        // showdown <debug-flag (ignored: the build profile decides)> <prob bits> b0..b4 p1a p1b p2a p2b ...
        "showdown" => {
            let prob = f32::from_bits(a[1].parse::<u32>().unwrap());
            let board: [Card; 5] = [card_of(n(2)), card_of(n(3)), card_of(n(4)), card_of(n(5)), card_of(n(6))];
            let mut players: Vec<CardPair> = vec![];
            let mut i = 7;
            while i + 1 < a.len() {
                players.push(CardPair::new(card_of(n(i)), card_of(n(i + 1))));
                i += 2;
            }
            match guarded(|| Showdown::new(players, board, prob).map(|sd| show_showdown(&sd))) {
                Some(Some(s)) => s,
                Some(None) => "none".to_string(),
                None => "panic".to_string(),
            }
        }
        _ => format!("bad-op {}", op),
    }
}

/// canonical text of a showdown (same format as the model driver)
pub fn show_showdown(sd: &Showdown) -> String {
    let b: Vec<String> = sd.board().iter().map(|c| card_code(c).to_string()).collect();
    let ps: Vec<String> = sd
        .players()
        .iter()
        .map(|p| format!("{}:{}:{}", pair_code(&p.hole_cards()), p.hand().power_index(), p.is_winner() as u8))
        .collect();
    let wl = match guarded(|| sd.winner_len()) {
        Some(n) => format!("ok {}", n),
        None => "panic".to_string(),
    };
    format!("some board={} players={} wl={} prob={}", b.join(" "), ps.join(" "), wl, sd.probability().to_bits())
}

pub fn special(_cmd: &str, _args: &[String]) -> bool {
    false
}
