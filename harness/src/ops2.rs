//! further operations (evaluator, iterator, ranges, scopes) -- grown property by property

pub fn run_op2(op: &str, _a: &[&str]) -> String {
    format!("bad-op {}", op)
}

pub fn special(_cmd: &str, _args: &[String]) -> bool {
    false
}
