//! further operations (evaluator, iterator, ranges, scopes) -- grown property by property
use crate::util::*;
use espada::card::Card;
use espada::evaluator::{FlopExhaustiveEvaluator, MadeHand, Showdown};
use espada::hand_range::{CardPair, HandRange};

pub fn run_op2(op: &str, a: &[&str]) -> String {
    let n = |i: usize| -> usize { a[i].parse::<usize>().unwrap() };
    match op {
        // eval7 c1 .. c7 -> ok <power index> <category Debug name>
        "eval7" => {
            let cards: [Card; 7] = [
                card_of(n(0)),
                card_of(n(1)),
                card_of(n(2)),
                card_of(n(3)),
                card_of(n(4)),
                card_of(n(5)),
                card_of(n(6)),
            ];
            match guarded(|| {
                let h: MadeHand = cards.into();
                (h.power_index(), format!("{:?}", h.hand_type()))
            }) {
                Some((i, c)) => format!("ok {} {}", i, c),
                None => "panic".to_string(),
            }
        }
        // showdown <debug-flag (ignored: the build profile decides)> <prob bits> b0..b4 p1a p1b p2a p2b ...
        "showdown" => {
            let prob = f32::from_bits(a[1].parse::<u32>().unwrap());
            let board: [Card; 5] = [card_of(n(2)), card_of(n(3)), card_of(n(4)), card_of(n(5)), card_of(n(6))];
            let mut players: Vec<CardPair> = vec![];
            let mut i = 7;
            while i + 1 < a.len() {
                players.push(CardPair::new(card_of(n(i)), card_of(n(i + 1))));
                i += 2;
            }
            match guarded(|| Showdown::new(players, board, prob).map(|sd| show_showdown(&sd))) {
                Some(Some(s)) => s,
                Some(None) => "none".to_string(),
                None => "panic".to_string(),
            }
        }
        // cmp7 a1..a7 b1..b7 : the comparison operators of MadeHand on two evaluated hands
        "cmp7" => {
            let mk = |o: usize| -> [Card; 7] { [card_of(n(o)), card_of(n(o + 1)), card_of(n(o + 2)), card_of(n(o + 3)), card_of(n(o + 4)), card_of(n(o + 5)), card_of(n(o + 6))] };
            match guarded(|| {
                let a: MadeHand = mk(0).into();
                let b: MadeHand = mk(7).into();
                let ord = |o: std::cmp::Ordering| match o { std::cmp::Ordering::Less => "lt", std::cmp::Ordering::Equal => "eq", std::cmp::Ordering::Greater => "gt" };
                format!("ok cmp={} partial={} eq={} lt={}", ord(a.cmp(&b)), a.partial_cmp(&b).map(ord).unwrap_or("none"), (a == b) as u8, (a < b) as u8)
            }) {
                Some(s) => s,
                None => "panic".to_string(),
            }
        }
        // eval7_block a b c : all seven-card sets whose three lowest card codes are a < b < c, each presented in an
        // order chosen by its card sum; digest of the power indexes and a histogram of the reported categories
        "eval7_block" => {
            let (x, y, z) = (n(0), n(1), n(2));
            match guarded(|| {
                let mut h: u64 = 0xcbf29ce484222325;
                let mut cnt = 0u64;
                let mut cats: std::collections::BTreeMap<String, u64> = std::collections::BTreeMap::new();
                for d in (z + 1)..52 {
                    for e in (d + 1)..52 {
                        for f in (e + 1)..52 {
                            for g in (f + 1)..52 {
                                let mut cs = [x, y, z, d, e, f, g];
                                let rot = (x + y + z + d + e + f + g) % 7;
                                cs.rotate_left(rot);
                                if (d + g) % 2 == 1 {
                                    cs.swap(1, 5);
                                }
                                let cards: [Card; 7] = [card_of(cs[0]), card_of(cs[1]), card_of(cs[2]), card_of(cs[3]), card_of(cs[4]), card_of(cs[5]), card_of(cs[6])];
                                let mh: MadeHand = cards.into();
                                h = (h ^ mh.power_index() as u64).wrapping_mul(0x100000001b3);
                                *cats.entry(format!("{:?}", mh.hand_type())).or_insert(0) += 1;
                                cnt += 1;
                            }
                        }
                    }
                }
                let names = ["HighCard", "Pair", "TwoPair", "Trips", "Straight", "Flush", "FullHouse", "Quads", "StraightFlush"];
                let hist: Vec<String> = names.iter().map(|nm| cats.get(*nm).copied().unwrap_or(0).to_string()).collect();
                let known: u64 = names.iter().map(|nm| cats.get(*nm).copied().unwrap_or(0)).sum();
                format!("ok n={} digest={} cats={} other={}", cnt, h, hist.join(","), cnt - known)
            }) {
                Some(s) => s,
                None => "panic".to_string(),
            }
        }
        "iter" => op_iter(a),
        _ => match crate::ops3::run_op3(op, a) {
            Some(s) => s,
            None => format!("bad-op {}", op),
        },
    }
}

pub struct IterReq {
    pub mode: String,
    pub nextra: usize,
    pub board: [Option<Card>; 5],
    pub scope: (u8, u8, u8, u8),
    pub set_scope: usize,
    pub ranges: Vec<Vec<(CardPair, f32)>>,
}

/// iter <debug> <mode> <nextra> b0 b1 b2 b3 b4 tf rf tt rt <setscope> <np> [<n> (<combo> <wbits>)*]*
pub fn parse_iter(a: &[&str]) -> IterReq {
    let n = |i: usize| -> usize { a[i].parse::<usize>().unwrap() };
    let mut board = [None; 5];
    for k in 0..5 {
        if a[3 + k] != "-" {
            board[k] = Some(card_of(n(3 + k)));
        }
    }
    let np = n(13);
    let mut ranges = vec![];
    let mut i = 14;
    for _ in 0..np {
        let k = n(i);
        i += 1;
        let mut es = vec![];
        for _ in 0..k {
            es.push((pair_of(n(i)), f32::from_bits(a[i + 1].parse::<u32>().unwrap())));
            i += 2;
        }
        ranges.push(es);
    }
    IterReq {
        mode: a[1].to_string(),
        nextra: n(2),
        board,
        scope: (n(8) as u8, n(9) as u8, n(10) as u8, n(11) as u8),
        set_scope: n(12),
        ranges,
    }
}

pub fn fnv(mut h: u64, s: &str) -> u64 {
    for b in s.bytes() {
        h = (h ^ b as u64).wrapping_mul(0x100000001b3);
    }
    h
}

fn group_key(s: &str) -> &str {
    s.split(" players=").next().unwrap_or("")
}

/// sort the strings inside each maximal run of equal board
pub fn canon_groups(l: Vec<String>) -> Vec<String> {
    let mut out: Vec<String> = Vec::with_capacity(l.len());
    let mut cur: Vec<String> = vec![];
    let mut key = String::new();
    for s in l {
        let k = group_key(&s).to_string();
        if k != key {
            cur.sort();
            out.append(&mut cur);
            key = k;
        }
        cur.push(s);
    }
    cur.sort();
    out.append(&mut cur);
    out
}

pub fn digest_of(l: &[String]) -> u64 {
    let mut h: u64 = 0xcbf29ce484222325;
    for s in l {
        h = fnv(fnv(h, s), "\n");
    }
    h
}

/// build the ranges by `collect()` from the listed entries (insertion order); also return, per player, the
/// positions of the listed entries in the order the built map iterates them (an INPUT of the model)
pub fn build_ranges(req: &IterReq) -> Option<(Vec<HandRange>, String)> {
    let mut players = vec![];
    let mut orders: Vec<String> = vec![];
    for es in &req.ranges {
        let hr: HandRange = es.iter().cloned().collect();
        if hr.card_pairs().len() != es.len() {
            return None; // duplicate combos in the request
        }
        let ord: Vec<String> = hr
            .card_pairs()
            .iter()
            .map(|(k, _)| es.iter().position(|e| e.0 == *k).unwrap().to_string())
            .collect();
        orders.push(ord.join(","));
        players.push(hr);
    }
    Some((players, orders.join("|")))
}

pub fn make_evaluator(req: &IterReq, players: &Vec<HandRange>) -> FlopExhaustiveEvaluator {
    let mut ev = FlopExhaustiveEvaluator::new(&req.board, players);
    let (tf, rf, tt, rt) = req.scope;
    match req.set_scope {
        0 => {}
        1 => ev.scope(tf, rf, tt, rt),
        _ => {
            ev.scope(3, 7, 20, 30);
            ev.scope(tf, rf, tt, rt);
        }
    }
    ev
}

fn op_iter(a: &[&str]) -> String {
    let req = parse_iter(a);
    let (players, order) = match build_ranges(&req) {
        Some(p) => p,
        None => return "bad-request".to_string(),
    };
    let res = guarded(|| {
        let ev = make_evaluator(&req, &players);
        let mut it = ev.into_iter();
        let mut strs: Vec<String> = vec![];
        while let Some(sd) = it.next() {
            strs.push(show_showdown(&sd));
        }
        let mut extra: Vec<&str> = vec![];
        for _ in 0..req.nextra {
            match guarded(|| it.next()) {
                Some(None) => extra.push("none"),
                Some(Some(_)) => extra.push("some"),
                None => {
                    extra.push("panic");
                    break;
                }
            }
        }
        (strs, extra.join(","))
    });
    let body = match res {
        None => "panic".to_string(),
        Some((strs, extra)) => {
            let n = strs.len();
            let canon = canon_groups(strs);
            let d = digest_of(&canon);
            if req.mode == "full" {
                format!("ok n={} digest={} extra={} all={}", n, d, extra, canon.join(";"))
            } else {
                format!("ok n={} digest={} extra={}", n, d, extra)
            }
        }
    };
    format!("{} order={}", body, order)
}

/// canonical text of a showdown (same format as the model driver)
pub fn show_showdown(sd: &Showdown) -> String {
    let b: Vec<String> = sd.board().iter().map(|c| card_code(c).to_string()).collect();
    let ps: Vec<String> = sd
        .players()
        .iter()
        .map(|p| format!("{}:{}:{}", pair_code(&p.hole_cards()), p.hand().power_index(), p.is_winner() as u8))
        .collect();
    let wl = match guarded(|| sd.winner_len()) {
        Some(n) => format!("ok {}", n),
        None => "panic".to_string(),
    };
    format!("some board={} players={} wl={} prob={}", b.join(" "), ps.join(" "), wl, sd.probability().to_bits())
}

/// process-level runs (C08): `drain2m` reads iter requests on stdin and drains each one on a fresh thread
/// with a 2 MiB stack (the default of `std::thread::spawn`), printing `ok n=<count>` / `panic` per request.
/// A stack overflow or abort kills the process: the caller sees the exit status and the missing lines.
/// is `t` in the weight grammar `0(.d+)?` / `1(.0+)?`
fn in_weight_grammar(t: &str) -> bool {
    let b = t.as_bytes();
    match b {
        [b'0'] | [b'1'] => true,
        [b'0', b'.', rest @ ..] => !rest.is_empty() && rest.iter().all(|c| c.is_ascii_digit()),
        [b'1', b'.', rest @ ..] => !rest.is_empty() && rest.iter().all(|c| *c == b'0'),
        _ => false,
    }
}

/// validate the named f32 assumptions (`WTextOk`) on the bit patterns `lo..hi` (step `step`):
/// Display text in the weight grammar, Display -> FromStr identity (bit for bit), `==` is bit equality, never negative/NaN
fn f32_sweep(lo: u32, hi: u32, step: u32) -> (u64, Vec<String>) {
    let mut bad: Vec<String> = vec![];
    let mut n = 0u64;
    let mut b = lo;
    while b < hi {
        let w = f32::from_bits(b);
        let t = format!("{}", w);
        let ok_grammar = in_weight_grammar(&t);
        let back = t.parse::<f32>();
        let ok_round = matches!(back, Ok(x) if x.to_bits() == b);
        let ok_unit = 0.0 <= w && w <= 1.0;
        if !(ok_grammar && ok_round && ok_unit) && bad.len() < 10 {
            bad.push(format!("bits={:#x} text={} grammar={} roundtrip={} unit={}", b, t, ok_grammar, ok_round, ok_unit));
        }
        n += 1;
        b = match b.checked_add(step) { Some(x) => x, None => break };
    }
    (n, bad)
}

pub fn special(cmd: &str, _args: &[String]) -> bool {
    match cmd {
        // f32sweep <step> : all weights in [0,1] = bit patterns 0..=0x3F800000, every `step`-th, on all cores
        "f32sweep" => {
            let step: u32 = _args.get(0).and_then(|s| s.parse().ok()).unwrap_or(1);
            let top: u32 = 0x3F800000 + 1;
            let threads = 16u32;
            let chunk = top / threads + 1;
            let mut hs = vec![];
            for k in 0..threads {
                let lo = (k * chunk) / step * step;
                let lo = if k == 0 { 0 } else { lo + if (k * chunk) % step == 0 { 0 } else { step } };
                let hi = std::cmp::min(top, (k + 1) * chunk);
                hs.push(std::thread::spawn(move || f32_sweep(lo, hi, step)));
            }
            let mut n = 0u64;
            let mut bad: Vec<String> = vec![];
            for h in hs {
                let (c, b) = h.join().unwrap();
                n += c;
                bad.extend(b);
            }
            // a few facts outside the sweep: "" is not a number; products of weights stay in [0,1] (seeded sample)
            let empty_err = "".parse::<f32>().is_err();
            let mut rng = Rng(12345);
            let mut prod_bad = 0u64;
            for _ in 0..2_000_000 {
                let a = f32::from_bits((rng.next() % top as u64) as u32);
                let b = f32::from_bits((rng.next() % top as u64) as u32);
                let p = a * b;
                if !(0.0 <= p && p <= 1.0) || p > a || p > b {
                    prod_bad += 1;
                }
            }
            // every text of the weight grammar is a number for `f32::from_str`, and a number of [0,1] (seeded sample of
            // texts: up to 60 fractional digits, long runs of zeros / nines, leading zeros after the point)
            let mut gram_bad = 0u64;
            let mut gram_n = 0u64;
            for i in 0..1_000_000u64 {
                let t: String = match i % 5 {
                    0 => "0".to_string(),
                    1 => "1".to_string(),
                    2 => format!("1.{}", "0".repeat(1 + (rng.next() % 40) as usize)),
                    3 => {
                        let len = 1 + (rng.next() % 60) as usize;
                        let fill = if rng.next() % 2 == 0 { '9' } else { '0' };
                        let mut d: String = std::iter::repeat(fill).take(len).collect();
                        if rng.next() % 2 == 0 {
                            d.push(char::from(b'0' + (rng.next() % 10) as u8));
                        }
                        format!("0.{}", d)
                    }
                    _ => {
                        let len = 1 + (rng.next() % 60) as usize;
                        let d: String = (0..len).map(|_| char::from(b'0' + (rng.next() % 10) as u8)).collect();
                        format!("0.{}", d)
                    }
                };
                gram_n += 1;
                match t.parse::<f32>() {
                    Ok(x) if in_weight_grammar(&t) && 0.0 <= x && x <= 1.0 && !x.is_sign_negative() => {}
                    _ => gram_bad += 1,
                }
            }
            println!("f32sweep checked={} bad={} empty_is_err={} product_sample_bad={} grammar_texts={} grammar_texts_bad={} examples={:?}", n, bad.len(), empty_err as u8, prod_bad, gram_n, gram_bad, bad);
            true
        }
        "drain2m" => {
            silence_panics();
            use std::io::{BufRead, Write};
            let stdin = std::io::stdin();
            for line in stdin.lock().lines() {
                let line = line.unwrap();
                let toks: Vec<String> = line.split_whitespace().map(|s| s.to_string()).collect();
                if toks.is_empty() || toks[0] != "iter" {
                    println!("bad-op");
                    continue;
                }
                let th = std::thread::Builder::new()
                    .stack_size(2 * 1024 * 1024)
                    .spawn(move || {
                        let a: Vec<&str> = toks[1..].iter().map(|s| s.as_str()).collect();
                        let req = parse_iter(&a);
                        let players = match build_ranges(&req) {
                            Some(p) => p.0,
                            None => return "bad-request".to_string(),
                        };
                        match guarded(|| {
                            let ev = make_evaluator(&req, &players);
                            let mut n: u64 = 0;
                            for _sd in ev {
                                n += 1;
                            }
                            n
                        }) {
                            Some(n) => format!("ok n={}", n),
                            None => "panic".to_string(),
                        }
                    })
                    .unwrap();
                let ans = th.join().unwrap_or_else(|_| "panic".to_string());
                println!("{}", ans);
                std::io::stdout().flush().unwrap();
            }
            true
        }
        _ => false,
    }
}
